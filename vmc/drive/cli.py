"""The real command lines: nanoemoji / maximum_color, run in a scratch directory."""
import os
import shutil
import subprocess
import tempfile
from pathlib import Path

EPOCH = "1600000000"


def scratch_root():
    root = Path(os.environ.get("VERIF_SCRATCH", "/var/tmp")) / f"vmc-{os.getpid()}"
    root.mkdir(parents=True, exist_ok=True)
    return root


def mkscratch(prefix="case"):
    return Path(tempfile.mkdtemp(prefix=prefix + "-", dir=scratch_root()))


def cleanup_root():
    shutil.rmtree(scratch_root(), ignore_errors=True)


def env(extra=None, hashseed="0"):
    e = dict(os.environ)
    e["PATH"] = "/venv/bin:" + e.get("PATH", "")
    e["SOURCE_DATE_EPOCH"] = EPOCH
    if hashseed is None:
        e.pop("PYTHONHASHSEED", None)
    else:
        e["PYTHONHASHSEED"] = str(hashseed)
    e.pop("PYTHONPATH", None)
    if extra:
        e.update(extra)
    if os.environ.get("VERIF_REPO_SRC"):  # background runs on a snapshot of the repository
        e["PYTHONPATH"] = os.environ["VERIF_REPO_SRC"] + (":" + e["PYTHONPATH"] if e.get("PYTHONPATH") else "")
    return e


def run(cmd, cwd, extra_env=None, hashseed="0", timeout=600):
    return subprocess.run(cmd, cwd=str(cwd), env=env(extra_env, hashseed), capture_output=True, text=True, timeout=timeout)


def nanoemoji(cwd, args, extra_env=None, hashseed="0", timeout=600):
    return run(["nanoemoji"] + [str(a) for a in args], cwd, extra_env, hashseed, timeout)


def maximum_color(cwd, args, extra_env=None, hashseed="0", timeout=900):
    return run(["maximum_color"] + [str(a) for a in args], cwd, extra_env, hashseed, timeout)


def write_sources(dirpath, sources):
    dirpath = Path(dirpath)
    dirpath.mkdir(parents=True, exist_ok=True)
    out = []
    for name, text in sources:
        p = dirpath / name
        if isinstance(text, bytes):
            p.write_bytes(text)
        else:
            p.write_text(text)
        out.append(p)
    return out


def flags_for(over):
    """FontConfig overrides -> command-line flags"""
    out = []
    for k, v in over.items():
        if v is None:
            continue
        if isinstance(v, bool):
            out.append(f"--{k}" if v else f"--no{k}")
        else:
            out.append(f"--{k}={v}")
    return out
