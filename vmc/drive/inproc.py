"""In-process drivers for the real nanoemoji code.

build_direct: hands picosvg-normal SVG objects to write_font._generate_color_font the way
the repository's own tests do, saves and reloads the binary.
"""
import io
import logging
import os
import tempfile
from pathlib import Path

_INIT = False


def init():
    global _INIT
    if _INIT:
        return
    from absl import flags

    os.environ["SOURCE_DATE_EPOCH"] = "1600000000"
    if not flags.FLAGS.is_parsed():
        flags.FLAGS(["vmc"])
    logging.getLogger().setLevel(logging.ERROR)
    logging.getLogger().addHandler(logging.NullHandler())
    try:
        from absl import logging as alog

        alog.set_verbosity(alog.ERROR)
    except Exception:
        pass
    _INIT = True


def reset_caches():
    from nanoemoji import parts, nanoemoji as ne

    for name in dir(parts):
        f = getattr(parts, name)
        if hasattr(f, "cache_clear"):
            f.cache_clear()
    for name in dir(ne):
        f = getattr(ne, name)
        if hasattr(f, "cache_clear"):
            f.cache_clear()
    if hasattr(ne._dest_for_src, "names_seen"):
        del ne._dest_for_src.names_seen


def base_config(**over):
    init()
    from nanoemoji import config

    cfg = config.load()._replace(fea_file="")
    if "transform" in over and isinstance(over["transform"], str):
        from picosvg.svg_transform import Affine2D

        over = dict(over, transform=Affine2D.fromstring(over["transform"]) if over["transform"] else Affine2D.identity())
    return cfg._replace(**over)


def fea_for(inputs):
    from nanoemoji import features

    # as write_fea.main does
    return features.generate_fea(sorted({i.codepoints for i in inputs if len(i.codepoints) > 1}))


def reload(ttfont):
    from fontTools.ttLib import TTFont

    b = io.BytesIO()
    ttfont.save(b)
    data = b.getvalue()
    return TTFont(io.BytesIO(data)), data


def build_direct(glyphs, over, names=None, bitmaps=None, parse=None):
    """glyphs: list of (codepoints, svg_text). Returns (cfg, reloaded TTFont, bytes).

    Exceptions from the compiler propagate to the caller (the reference model decides
    whether an error outcome was predicted)."""
    init()
    from nanoemoji.write_font import InputGlyph, _generate_color_font
    from nanoemoji.glyph import glyph_name
    from picosvg.svg import SVG

    cfg = base_config(**over)
    ins = []
    for i, (cps, text) in enumerate(glyphs):
        svg = None
        if text is not None:
            svg = SVG.fromstring(text) if parse is None else parse(text)
        bmp = bitmaps[i] if bitmaps else None
        name = names[i] if names else glyph_name(cps)
        ins.append(InputGlyph(Path(f"g{i}.svg"), Path(f"g{i}.png") if bmp is not None else None, tuple(cps), name, svg, bmp))
    tmp = None
    try:
        if any(len(i.codepoints) > 1 for i in ins):
            fd, tmp = tempfile.mkstemp(suffix=".fea", dir=os.environ.get("VERIF_SCRATCH", "/var/tmp"))
            with os.fdopen(fd, "w") as f:
                f.write(fea_for(ins))
            cfg = cfg._replace(fea_file=tmp)
        ufo, tt = _generate_color_font(cfg, ins)
    finally:
        if tmp:
            os.unlink(tmp)
    font, data = reload(tt)
    return cfg, font, data


def import_step(modname):
    """Import a worker-step module (nanoemoji.write_glyphmap, ...) next to nanoemoji.config in
    one process: the steps re-define absl flags that config already defines (they are separate
    processes in the real graph), so duplicate definitions are ignored while importing."""
    import importlib
    import sys
    from absl import flags

    if modname in sys.modules:
        return sys.modules[modname]
    saved = {}
    for fn in ("DEFINE_string", "DEFINE_bool", "DEFINE_integer", "DEFINE_float", "DEFINE_enum", "DEFINE_list"):
        orig = getattr(flags, fn)
        saved[fn] = orig

        def safe(*a, _orig=orig, **k):
            try:
                return _orig(*a, **k)
            except flags.DuplicateFlagError:
                return None

        setattr(flags, fn, safe)
    try:
        return importlib.import_module(modname)
    finally:
        for fn, orig in saved.items():
            setattr(flags, fn, orig)
