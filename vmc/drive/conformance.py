"""Binds PIPE (the in-process model of the build graph) to the real `nanoemoji` command:
for every given (sources, overrides) the CLI's font must be byte-identical to PIPE's."""
import hashlib

from vmc.core import pool
from vmc.core.report import HarnessError
from . import cli, pipe

ALL_FORMATS = ["glyf", "glyf_colr_0", "glyf_colr_1", "cff_colr_0", "cff_colr_1", "cff2_colr_0", "cff2_colr_1",
               "picosvg", "picosvgz", "untouchedsvg", "untouchedsvgz", "cbdt", "sbix"]
QUICK_FORMATS = ["glyf_colr_1", "picosvg", "cbdt"]


def out_name(fmt):
    return "Font.otf" if fmt.startswith("cff") else "Font.ttf"


def base_sources():
    from vmc.core import lattice
    from vmc.gen import scenes

    glyphs, _ = scenes.mk(lattice.full(scenes.DIMS, {}))
    return [(f"emoji_u{'_'.join('%x' % c for c in g.cps)}.svg", g.svg()) for g in glyphs]


def one(case):
    srcs = case.get("sources") or base_sources()
    over = dict(case["over"])
    over.setdefault("output_file", out_name(over.get("color_format", "glyf_colr_1")))
    w = cli.mkscratch("conf")
    try:
        pe = ce = None
        pdata = cdata = None
        try:
            _, _, pdata = pipe.build(w / "p", srcs, over)
        except Exception as e:
            pe = f"{type(e).__name__}: {e}"
        files = cli.write_sources(w / "c" / "src", srcs)
        r = cli.nanoemoji(w / "c", cli.flags_for(over) + [str(f) for f in files])
        out = w / "c" / "build" / over["output_file"]
        if r.returncode != 0 or not out.exists():
            ce = (r.stderr or "")[-400:]
        else:
            cdata = out.read_bytes()
        if pe is None and ce is None:
            if pdata != cdata:
                return [{"status": "harness-error", "clause": "PIPE.bytes", "detail": f"PIPE and CLI both succeed with different bytes for {over}"}]
            return [{"status": "ok", "clause": "PIPE.conforms", "fp": hashlib.sha256(cdata).hexdigest()[:8]}]
        if pe is not None and ce is not None:
            return [{"status": "ok", "clause": "PIPE.conforms", "fp": "both-fail"}]
        return [{"status": "violation", "clause": "PIPE.outcome", "detail": f"PIPE: {pe or 'ok'} / CLI: {ce or 'ok'} for {over}"}]
    finally:
        import shutil

        shutil.rmtree(w, ignore_errors=True)


def run(report, tier, extra_cases=()):
    fmts = ALL_FORMATS if tier == "thorough" else QUICK_FORMATS
    cases = []
    for f in fmts:
        over = {"color_format": f}
        if f in ("cbdt", "sbix"):
            over.update(use_pngquant=False, use_zopflipng=False)
        cases.append({"over": over})
    cases += list(extra_cases)
    res = pool.run_cases(one, cases, timeout=300, jobs=min(8, pool.nproc()))
    n = 0
    for c, vs in zip(cases, res):
        for v in vs:
            if v["status"] == "harness-error":
                raise HarnessError(v["detail"])
            if v["status"] == "violation":
                report.add_violation(v["clause"], c, v["detail"])
            else:
                n += 1
    report.extra["pipe_cli_conformance_builds"] = report.extra.get("pipe_cli_conformance_builds", 0) + len(cases)
    report.executions += len(cases)
    return n
