"""Fault injector, loaded by every Python process of one `nanoemoji` invocation (PYTHONPATH).
VERIF_FAULT = "<target>:<mode>"   VERIF_FAULT_DIR = directory for the once-only marker
targets: driver | picosvg | write_glyphmap | write_fea | write_part_file | write_combined_part_files |
         write_font | pngquant | zopfli      (resvg is an ELF binary: see ../bin/resvg)
modes:   fail-before        exit 3 before doing anything
         truncate-kill      let the step finish, truncate its output to half, SIGKILL the step
         truncate-killall   the same, then SIGKILL ninja and the driver as well
         (driver) kill-before-ninja-file | kill-half-ninja-file
Never imports nanoemoji; does nothing unless VERIF_FAULT is set."""
import os
import sys

_spec = os.environ.get("VERIF_FAULT")


def _role():
    argv = list(getattr(sys, "orig_argv", sys.argv))
    if "-m" in argv:
        m = argv[argv.index("-m") + 1]
        if m.startswith("nanoemoji."):
            return m.split(".", 1)[1]
        if m.startswith("zopfli"):
            return "zopfli"
        return m
    for a in argv[1:3]:
        b = os.path.basename(a)
        if b == "nanoemoji":
            return "driver"
        if b == "picosvg":
            return "picosvg"
    return None


def _claim():
    """only the first matching process of the invocation takes the fault"""
    d = os.environ.get("VERIF_FAULT_DIR")
    if not d:
        return True
    try:
        fd = os.open(os.path.join(d, "fault.taken"), os.O_CREAT | os.O_EXCL | os.O_WRONLY)
        os.write(fd, (" ".join(getattr(sys, "orig_argv", sys.argv))).encode())
        os.close(fd)
        return True
    except FileExistsError:
        return False


def _output_path():
    argv = list(getattr(sys, "orig_argv", sys.argv))
    for i, a in enumerate(argv):
        if a == "--output_file" and i + 1 < len(argv):
            return argv[i + 1]
        if a.startswith("--output_file="):
            return a.split("=", 1)[1]
        if a == "-o" and i + 1 < len(argv):
            return argv[i + 1]
    role = _role()
    if role == "write_font":
        for i, a in enumerate(argv):
            if a == "--config_file":
                import re

                txt = open(argv[i + 1]).read()
                m = re.search(r'^output_file\s*=\s*"([^"]*)"', txt, re.M)
                if m:
                    return m.group(1)
    if role == "zopfli":
        return argv[-1]
    return None


def _kill_chain(include_self=True):
    import signal

    victims = []
    pid = os.getppid()
    for _ in range(6):
        try:
            cmd = open(f"/proc/{pid}/cmdline", "rb").read().decode(errors="replace")
            stat = open(f"/proc/{pid}/stat").read()
        except OSError:
            break
        if "ninja" in cmd or "nanoemoji" in cmd:
            victims.append(pid)
        if "/nanoemoji" in cmd and "-m" not in cmd.split("\0"):
            break
        pid = int(stat.rsplit(")", 1)[1].split()[1])
        if pid <= 1:
            break
    for v in reversed(victims):  # the driver first, so that nobody reports on the death of a child
        try:
            os.kill(v, signal.SIGKILL)
        except OSError:
            pass
    if include_self:
        os.kill(os.getpid(), signal.SIGKILL)


def _truncate(path):
    try:
        size = os.path.getsize(path)
        with open(path, "r+b") as f:
            f.truncate(size // 2)
    except OSError:
        pass


if _spec:
    target, mode = _spec.split(":", 1)
    role = _role()
    if role == target and target != "driver":
        if mode == "fail-before":
            if _claim():
                sys.stderr.write(f"[verif fault] {role}: injected failure\n")
                os._exit(3)
        elif mode in ("truncate-kill", "truncate-killall"):
            out = _output_path()
            import atexit
            import signal

            def _at_exit(out=out, mode=mode):
                if not _claim():
                    return
                try:
                    sys.stdout.flush()
                except Exception:
                    pass
                if out:
                    _truncate(out)
                if mode == "truncate-killall":
                    _kill_chain()
                os.kill(os.getpid(), signal.SIGKILL)

            atexit.register(_at_exit)
    elif role == "driver" and target == "driver":
        import signal

        def _hook(event, args):
            if event == "open" and mode == "kill-before-ninja-file":
                p = args[0]
                if isinstance(p, str) and p.endswith("build.ninja") and args[1] and "w" in str(args[1]):
                    if _claim():
                        os.kill(os.getpid(), signal.SIGKILL)
            elif event == "subprocess.Popen" and mode == "kill-half-ninja-file":
                cmd = args[1]
                if cmd and "ninja" in str(cmd[0]) and _claim():
                    bd = cmd[cmd.index("-C") + 1] if "-C" in cmd else "."
                    _truncate(os.path.join(bd, "build.ninja"))
                    os.kill(os.getpid(), signal.SIGKILL)

        sys.addaudithook(_hook)
