"""PIPE: the in-process pipeline, chaining the repository's own functions exactly as the
ninja graph of the `nanoemoji` command does (DESIGN.md section 3.3). PIPE is harness code,
hence a *model* of the CLI; it is bound to the implementation by byte-for-byte conformance
runs against the real command (vmc/drive/conformance.py)."""
import io
import os
import shutil
from pathlib import Path

from . import inproc


def picosvg_step(src: Path, dest: Path, clip: bool):
    """what `picosvg --clip_to_viewbox --output_file $out $in` does"""
    from picosvg.svg import SVG

    svg = SVG.parse(str(src)).topicosvg(allow_text=False, drop_unsupported=False)
    if clip:
        svg.clip_to_viewbox(inplace=True)
    dest.parent.mkdir(parents=True, exist_ok=True)
    dest.write_text(svg.tostring(pretty_print=True))


def build(workdir, sources, over, flags_first=None, keep=False):
    """sources: [(file name, text)] written to <workdir>/src. Returns (cfg, font, bytes).
    Mirrors: config resolve/write/load, picosvg, write_glyphmap, write_fea, write_part_file,
    write_combined_part_files, write_font."""
    inproc.init()
    inproc.reset_caches()
    from nanoemoji import config, glyphmap, features, write_font
    write_glyphmap = inproc.import_step("nanoemoji.write_glyphmap")
    from nanoemoji.parts import ReusableParts
    from picosvg.geometric_types import Rect
    from picosvg.svg import SVG
    from fontTools.ttLib import TTFont

    workdir = Path(workdir)
    src_dir = workdir / "src"
    bdir = workdir / "build"
    src_dir.mkdir(parents=True, exist_ok=True)
    bdir.mkdir(parents=True, exist_ok=True)
    files = []
    for name, text in sources:
        p = src_dir / name
        if isinstance(text, bytes):
            p.write_bytes(text)
        else:
            p.write_text(text)
        files.append(p)
    files = sorted(files)  # config.load sorts the sources by absolute path
    try:
        cfg = inproc.base_config(**over)
        master = config.MasterConfig(name="Regular", style_name="Regular", output_ufo="regular.ufo", position=(), sources=tuple(files))
        cfg = cfg._replace(masters=(master,), source_names=tuple(sorted({f.name for f in files})), fea_file="features.fea").validate()
        # the driver: resolved config (sources -> picosvgs) written to the build dir
        if cfg.has_picosvgs:
            sub = bdir / "picosvg" / ("clipped" if cfg.clip_to_viewbox else "")
            dests = [sub / f.name for f in files]
            build_cfg = cfg._replace(masters=(master._replace(sources=tuple(dests)),))
        else:
            dests = list(files)
            build_cfg = cfg
        cfg_file = bdir / (Path(cfg.output_file).stem + ".toml")
        config.write(cfg_file, build_cfg)
        # picosvg steps
        if cfg.has_picosvgs:
            for f, d in zip(files, dests):
                picosvg_step(f, d, cfg.clip_to_viewbox)
        # bitmap steps (resvg, then optionally pngquant and zopflipng) as the graph runs them
        input_files = [str(d) for d in dests] if cfg.has_svgs else []
        if cfg.has_bitmaps:
            import subprocess, sys

            env = dict(os.environ, PATH="/venv/bin:" + os.environ.get("PATH", ""))
            for f in files:
                png = bdir / "bitmap" / (f.stem + ".png")
                png.parent.mkdir(parents=True, exist_ok=True)
                subprocess.run(["resvg", "-h", str(cfg.bitmap_resolution), str(f), str(png)], check=True, env=env, capture_output=True)
                final = png
                if cfg.use_pngquant:
                    q = bdir / "pngquant" / png.name
                    q.parent.mkdir(parents=True, exist_ok=True)
                    subprocess.run([sys.executable, "-m", "nanoemoji.pngquant", "-i", str(final), "-o", str(q), "--", "-f"] + cfg.pngquant_flags.split(), check=True, env=env, capture_output=True)
                    final = q
                if cfg.use_zopflipng:
                    z = bdir / "zopflipng" / png.name
                    z.parent.mkdir(parents=True, exist_ok=True)
                    subprocess.run([sys.executable, "-m", "zopfli.png", "-y", str(final), str(z)], check=True, env=env, capture_output=True)
                    final = z
                input_files.append(str(final))
        # write_glyphmap
        lines = [gm.csv_line() for gm in write_glyphmap._glyphmappings(input_files)]
        (bdir / "glyphmap.csv").write_text("\n".join(lines) + "\n")
        with open(bdir / "glyphmap.csv") as f:
            mappings = glyphmap.load_from(f)
        # write_fea
        seqs = sorted({gm.codepoints for gm in mappings if len(gm.codepoints) > 1})
        fea_file = bdir / "features.fea"
        fea_file.write_text(features.generate_fea(seqs) + "\n")
        # write_part_file + write_combined_part_files (nodes of the graph: failure fails the build)
        if cfg.has_picosvgs:
            wh = cfg.ascender - cfg.descender
            jsons = []
            for d in dests:
                parts = ReusableParts(view_box=Rect(0, 0, wh, wh), reuse_tolerance=cfg.reuse_tolerance)
                parts.add(SVG.parse(d))
                pj = d.with_suffix(".parts.json")
                pj.write_text(parts.to_json() + "\n")
                jsons.append(pj)
            combined = ReusableParts()
            individual = [ReusableParts.loadjson(p) for p in sorted(jsons)]
            if individual:
                from nanoemoji import util

                combined.version = util.only({p.version for p in individual})
                combined.reuse_tolerance = util.only({p.reuse_tolerance for p in individual})
                combined.view_box = util.only({p.view_box for p in individual})
            for p in individual:
                combined.add(p)
            combined.compute_donors()
            (bdir / "parts-merged.json").write_text(combined.to_json() + "\n")
        # write_font
        font_config = config.load(cfg_file)._replace(fea_file=str(fea_file))
        inputs = list(write_font._inputs(font_config, mappings))
        ufo, ttfont = write_font._generate_color_font(font_config, inputs)
        b = io.BytesIO()
        ttfont.save(b)
        data = b.getvalue()
        return font_config, TTFont(io.BytesIO(data)), data
    finally:
        if not keep:
            shutil.rmtree(workdir, ignore_errors=True)
