"""Flatten a colour glyph to its list of leaves (z-order, bottom first):
each leaf = placed outline (skia path + matrix), a fill function (point -> non-premultiplied
RGBA x accumulated alpha, in font space) and a structural tag. Never imports nanoemoji."""
from fontTools.ttLib.tables import otTables as ot

from . import aff, paths
from .colr_eval import ColrPicture, PF, premul, static_format


class Leaf:
    def __init__(self, path, matrix, fill_at, tag, name=None):
        self.path, self.matrix, self.fill_at, self.tag, self.name = path, matrix, fill_at, tag, name
        self._poly = None

    def poly(self):
        if self._poly is None:
            self._poly = paths.polyline(self.path, self.matrix)
        return self._poly

    def contains(self, p):
        if abs(aff.det(self.matrix)) < 1e-12:
            return False
        return self.path.contains(aff.ap(aff.inv(self.matrix), p))

    def interior(self, n=6):
        return paths.interior_points(self.path, self.matrix, n)


class Unsupported(Exception):
    pass


def colr_leaves(font, glyph, fg):
    """COLRv0 / COLRv1 glyph -> [Leaf]"""
    pic = ColrPicture(font, foreground=fg)
    colr = font["COLR"]
    out = []
    if colr.version == 0:
        for layer in colr.ColorLayers.get(glyph, []):
            c = pic.color(layer.colorID, 1.0)
            out.append(Leaf(pic.outline(layer.name), aff.I, (lambda p, c=c: c), "solid", layer.name))
        return out
    root = pic.base_paint(glyph)
    if root is None:
        return out

    def walk(p, T, alpha):
        f = static_format(p)
        if f == PF.PaintColrLayers:
            ll = colr.table.LayerList.Paint
            for ch in ll[p.FirstLayerIndex: p.FirstLayerIndex + p.NumLayers]:
                walk(ch, T, alpha)
            return
        if f == PF.PaintColrGlyph:
            walk(pic.base_paint(p.Glyph), T, alpha)
            return
        m = pic.xform(p)
        if m is not None:
            walk(p.Paint, aff.mul(T, m), alpha)
            return
        if f == PF.PaintComposite:
            if int(p.CompositeMode) == ot.CompositeMode.SRC_IN and static_format(p.BackdropPaint) == PF.PaintSolid:
                a = pic.color(p.BackdropPaint.PaletteIndex, p.BackdropPaint.Alpha)[3]
                walk(p.SourcePaint, T, alpha * a)
                return
            raise Unsupported(f"composite mode {p.CompositeMode}")
        if f == PF.PaintGlyph:
            fill = p.Paint

            def fill_at(pt, fill=fill, T=T, alpha=alpha):
                c = pic.ev(fill, pt, T)  # premultiplied
                if c[3] == 0:
                    return (0.0, 0.0, 0.0, 0.0)
                return (c[0] / c[3], c[1] / c[3], c[2] / c[3], c[3] * alpha)

            tag = {PF.PaintSolid: "solid", PF.PaintLinearGradient: "linear", PF.PaintRadialGradient: "radial"}.get(static_format(_strip(pic, fill)), "other")
            out.append(Leaf(pic.outline(p.Glyph), T, fill_at, tag, p.Glyph))
            return
        raise Unsupported(f"paint format {f}")

    walk(root, aff.I, 1.0)
    return out


def _strip(pic, p):
    while pic.xform(p) is not None:
        p = p.Paint
    return p


def svg_leaves(pic, el_id):
    """OT-SVG glyph element -> [Leaf] in font space (y up)"""
    from . import svg_eval

    FLIP = (1, 0, 0, -1, 0, 0)
    out = []

    def walk(el, M, inh, alpha):
        tag = svg_eval.ln(el)
        if tag in svg_eval._IGNORED:
            return
        inh = dict(inh)
        for k in svg_eval._INHERITED:
            if el.get(k) is not None:
                inh[k] = el.get(k)
        M = aff.mul(M, svg_eval.parse_transform(el.get("transform")))
        alpha = alpha * float(el.get("opacity", "1"))
        if tag in ("g", "svg"):
            for ch in el:
                walk(ch, M, inh, alpha)
        elif tag == "use":
            href = el.get(svg_eval.XL) or el.get("href")
            ref = pic.ids[href[1:]]
            M2 = aff.mul(M, aff.tr(float(el.get("x", "0")), float(el.get("y", "0"))))
            walk(ref, M2, inh, alpha)
        else:
            sk, bb = pic.path(el, inh.get("fill-rule", "nonzero"))
            fo = float(inh.get("fill-opacity", "1"))
            Mf = aff.mul(FLIP, M)
            f = inh["fill"]

            def fill_at(pt, Mf=Mf, f=f, bb=bb, a=alpha * fo):
                q = aff.ap(aff.inv(Mf), pt)
                c = pic.fill(f, q, bb)
                return (c[0], c[1], c[2], c[3] * a)

            kind = "solid"
            if f.strip().startswith("url("):
                g = pic.ids[f[f.index("#") + 1: f.index(")")]]
                kind = "linear" if svg_eval.ln(g) == "linearGradient" else "radial"
            out.append(Leaf(sk, Mf, fill_at, kind, el.get("id")))

    walk(pic.ids[el_id], aff.I, pic.inherited(pic.ids[el_id]), 1.0)
    return out
