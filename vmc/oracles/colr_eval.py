import math
import pathops
from fontTools.pens.basePen import BasePen
from fontTools.ttLib.tables import otTables as ot
from . import aff, grad

class _SkiaPen(BasePen):
    def __init__(self, gs):
        super().__init__(gs); self.path=pathops.Path()
    def _moveTo(self,p): self.path.moveTo(*p)
    def _lineTo(self,p): self.path.lineTo(*p)
    def _curveToOne(self,a,b,c): self.path.cubicTo(*a,*b,*c)
    def _qCurveToOne(self,a,b): self.path.quadTo(*a,*b)
    def _closePath(self): self.path.close()
    def _endPath(self): pass

PF=ot.PaintFormat
_VAR={int(PF.PaintVarSolid),int(PF.PaintVarLinearGradient),int(PF.PaintVarRadialGradient),int(PF.PaintVarSweepGradient),int(PF.PaintVarTransform),
      int(PF.PaintVarTranslate),int(PF.PaintVarScale),int(PF.PaintVarScaleAroundCenter),int(PF.PaintVarScaleUniform),int(PF.PaintVarScaleUniformAroundCenter),
      int(PF.PaintVarRotate),int(PF.PaintVarRotateAroundCenter),int(PF.PaintVarSkew),int(PF.PaintVarSkewAroundCenter)}
def static_format(paint):
    """a variable paint format whose variation index says 'no variation' (what a full instance
    leaves behind) denotes its static counterpart; a live variation is not evaluated here"""
    f=int(paint.Format)
    if f in _VAR:
        if getattr(paint,'VarIndexBase',0xFFFFFFFF)!=0xFFFFFFFF: raise NotImplementedError('live variable paint %d'%f)
        return f-1
    return f
class ColrPicture:
    def __init__(self, font, foreground=(0.2,0.9,0.4,1.0)):
        self.font=font; self._gs=None; self._paths={}
        self.fg=foreground
        self.colr=font["COLR"]
        self.pal=[(c.red/255,c.green/255,c.blue/255,c.alpha/255) for c in font["CPAL"].palettes[0]]
    def outline(self,name):
        if name not in self._paths:
            if self._gs is None: self._gs=self.font.getGlyphSet()
            pen=_SkiaPen(self._gs); self._gs[name].draw(pen); self._paths[name]=pen.path
        return self._paths[name]
    def color(self,idx,alpha):
        r,g,b,a=self.fg if idx==0xFFFF else self.pal[idx]
        return (r,g,b,a*alpha)
    def base_paint(self,glyph):
        if self.colr.version==0: return None
        for rec in self.colr.table.BaseGlyphList.BaseGlyphPaintRecord:
            if rec.BaseGlyph==glyph: return rec.Paint
        return None
    def clipbox(self,glyph):
        if self.colr.version==0: return None
        cl=self.colr.table.ClipList
        if cl is None: return None
        cb=cl.clips.get(glyph)
        return None if cb is None else (cb.xMin,cb.yMin,cb.xMax,cb.yMax)
    # returns premultiplied rgba
    def at(self,glyph,p,clip=True):
        if self.colr.version==0:
            out=(0,0,0,0)
            for layer in self.colr.ColorLayers.get(glyph,[]):
                if self.outline(layer.name).contains(p):
                    out=over(premul(self.color(layer.colorID,1.0)),out)
            return out
        cb=self.clipbox(glyph) if clip else None
        if cb is not None and not (cb[0]<=p[0]<=cb[2] and cb[1]<=p[1]<=cb[3]): return (0,0,0,0)
        paint=self.base_paint(glyph)
        if paint is None: return (0,0,0,0)
        return self.ev(paint,p,aff.I)
    def xform(self,paint):
        f=static_format(paint)
        if f==PF.PaintTransform:
            t=paint.Transform; return (t.xx,t.yx,t.xy,t.yy,t.dx,t.dy)
        if f==PF.PaintTranslate: return aff.tr(paint.dx,paint.dy)
        if f==PF.PaintScale: return aff.sc(paint.scaleX,paint.scaleY)
        if f==PF.PaintScaleAroundCenter: return aff.around(aff.sc(paint.scaleX,paint.scaleY),paint.centerX,paint.centerY)
        if f==PF.PaintScaleUniform: return aff.sc(paint.scale)
        if f==PF.PaintScaleUniformAroundCenter: return aff.around(aff.sc(paint.scale),paint.centerX,paint.centerY)
        if f==PF.PaintRotate: return aff.rot(paint.angle)
        if f==PF.PaintRotateAroundCenter: return aff.around(aff.rot(paint.angle),paint.centerX,paint.centerY)
        if f==PF.PaintSkew: return aff.skew(-paint.xSkewAngle,paint.ySkewAngle)
        if f==PF.PaintSkewAroundCenter: return aff.around(aff.skew(-paint.xSkewAngle,paint.ySkewAngle),paint.centerX,paint.centerY)
        return None
    def stops(self,cl):
        return sorted(((s.StopOffset,self.color(s.PaletteIndex,s.Alpha)) for s in cl.ColorStop),key=lambda s:s[0])
    def ev(self,paint,p,T):
        f=static_format(paint)
        if f==PF.PaintColrLayers:
            out=(0,0,0,0)
            ll=self.colr.table.LayerList.Paint
            for ch in ll[paint.FirstLayerIndex:paint.FirstLayerIndex+paint.NumLayers]:
                out=over(self.ev(ch,p,T),out)
            return out
        if f==PF.PaintSolid:
            return premul(self.color(paint.PaletteIndex,paint.Alpha))
        if f==PF.PaintGlyph:
            q=aff.ap(aff.inv(T),p)
            if not self.outline(paint.Glyph).contains(q): return (0,0,0,0)
            return self.ev(paint.Paint,p,T)
        if f==PF.PaintColrGlyph:
            return self.ev(self.base_paint(paint.Glyph),p,T)
        m=self.xform(paint)
        if m is not None:
            return self.ev(paint.Paint,p,aff.mul(T,m))
        if f==PF.PaintLinearGradient:
            q=aff.ap(aff.inv(T),p)
            t=grad.linear_t((paint.x0,paint.y0),(paint.x1,paint.y1),(paint.x2,paint.y2),q)
            st=self.stops(paint.ColorLine)
            if t is None: return premul(st[-1][1])
            return premul(grad.colorline(st,t,EXT[paint.ColorLine.Extend]))
        if f==PF.PaintRadialGradient:
            q=aff.ap(aff.inv(T),p)
            t=grad.radial_t((paint.x0,paint.y0),paint.r0,(paint.x1,paint.y1),paint.r1,q)
            if t is None: return (0,0,0,0)
            return premul(grad.colorline(self.stops(paint.ColorLine),t,EXT[paint.ColorLine.Extend]))
        if f==PF.PaintComposite:
            s=self.ev(paint.SourcePaint,p,T); d=self.ev(paint.BackdropPaint,p,T)
            mode=int(paint.CompositeMode)
            if mode==ot.CompositeMode.SRC_IN: return tuple(c*d[3] for c in s)
            if mode==ot.CompositeMode.SRC_OVER: return over(s,d)
            raise NotImplementedError(mode)
        raise NotImplementedError(f)
EXT={0:"pad",1:"repeat",2:"reflect"}
def premul(c): return (c[0]*c[3],c[1]*c[3],c[2]*c[3],c[3])
def over(s,d):
    k=1-s[3]; return tuple(s[i]+d[i]*k for i in range(4))


def placing_scales(font):
    """{base glyph: largest scale factor applied on the way to an outline}, read from the
    paint transforms of the *output* (1.0 when nothing is transformed)."""
    import math as _m
    out = {}
    colr = font["COLR"]
    if colr.version == 0:
        return {g: 1.0 for g in colr.ColorLayers}
    pic = ColrPicture(font)
    table = colr.table

    def walk(p, T, best):
        m = pic.xform(p)
        if m is not None:
            T = aff.mul(T, m)
        if static_format(p) == PF.PaintGlyph:
            a_, b_, c_, d_ = T[:4]
            best[0] = max(best[0], _m.hypot(a_, b_), _m.hypot(c_, d_))
        for ch in p.getChildren(table):
            walk(ch, T, best)

    for r in table.BaseGlyphList.BaseGlyphPaintRecord:
        best = [1.0]
        walk(r.Paint, aff.I, best)
        out[r.BaseGlyph] = best[0]
    return out
