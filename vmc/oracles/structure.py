"""O-STRUCT: the structural rules of C07 as executable predicates over the raw bytes of a
font file (own parsers for the COLR header/records, the SVG document index, CBLC index
sub-tables) and over fontTools' decompiled tables. Never imports nanoemoji.
check(data) -> list of (clause, detail)."""
import gzip
import io
import re
import struct

from fontTools.ttLib import TTFont
from lxml import etree

XLINK = "{http://www.w3.org/1999/xlink}href"


def _xml(font):
    b = io.StringIO()
    font.saveXML(b)
    lines = [l for l in b.getvalue().splitlines()
             if "checkSumAdjustment" not in l and "<modified" not in l and "ttLibVersion" not in l]
    return "\n".join(lines)


def check(data, want_names=None, bitmap_glyphs=None):
    """data: bytes of the emitted file. want_names: True/False when known (post format).
    bitmap_glyphs: glyph ids that must carry exactly one bitmap (when the caller knows them)."""
    bad = []
    try:
        font = TTFont(io.BytesIO(data), lazy=False)
        font.ensureDecompiled()
    except Exception as e:
        return [("C07.loads", f"{type(e).__name__}: {e}")]
    # ---- re-save to an equivalent font; second re-save is a fixed point ---------------
    try:
        b1 = io.BytesIO()
        font.save(b1)
        f2 = TTFont(io.BytesIO(b1.getvalue()), lazy=False)
        f2.ensureDecompiled()
        if _xml(TTFont(io.BytesIO(data))) != _xml(f2):
            bad.append(("C07.resave-equivalent", "TTX dump of the re-saved font differs from the original's"))
        b2 = io.BytesIO()
        f2.save(b2)
        f3 = TTFont(io.BytesIO(b2.getvalue()))
        f2r = TTFont(io.BytesIO(b1.getvalue()))
        for tag in f2r.reader.keys():
            if tag == "head":
                continue
            if f2r.reader[tag] != f3.reader[tag]:
                bad.append(("C07.resave-fixed-point", f"table {tag} changes on a second re-save"))
    except Exception as e:
        bad.append(("C07.resaves", f"{type(e).__name__}: {e}"))
    raw = TTFont(io.BytesIO(data)).reader
    order = font.getGlyphOrder()
    n = len(order)
    # ---- glyph set agreement -------------------------------------------------------------
    if font["maxp"].numGlyphs != n:
        bad.append(("C07.glyph-set", f"maxp.numGlyphs {font['maxp'].numGlyphs} != glyph order {n}"))
    if len(font["hmtx"].metrics) != n or set(font["hmtx"].metrics) != set(order):
        bad.append(("C07.glyph-set", "hmtx does not cover the glyph order"))
    if "glyf" in font:
        if set(font["glyf"].keys()) != set(order):
            bad.append(("C07.glyph-set", "glyf does not cover the glyph order"))
        if len(font["loca"].locations) != n + 1 if hasattr(font["loca"], "locations") else False:
            bad.append(("C07.glyph-set", "loca length != numGlyphs+1"))
        if "loca" in raw:
            ll = len(raw["loca"]) // (4 if font["head"].indexToLocFormat else 2)
            if ll != n + 1:
                bad.append(("C07.glyph-set", f"raw loca has {ll} entries for {n} glyphs"))
    for tag in ("CFF ", "CFF2"):
        if tag in font:
            cs = font[tag].cff.topDictIndex[0].CharStrings
            if len(cs) != n:
                bad.append(("C07.glyph-set", f"{tag} has {len(cs)} charstrings for {n} glyphs"))
    if order[0] != ".notdef" and font["post"].formatType != 3:
        bad.append(("C07.glyph-set", f"glyph 0 is {order[0]}"))
    for table in font["cmap"].tables:
        for cp, g in table.cmap.items():
            if g not in font["hmtx"].metrics:
                bad.append(("C07.cmap-target", f"U+{cp:04X} -> {g} which is not a glyph"))
    if "glyf" in font and want_names is not None:
        fmt = font["post"].formatType
        if fmt != (2 if want_names else 3):
            bad.append(("C07.post-format", f"post format {fmt} with keep_glyph_names={want_names}"))
    # ---- COLR ------------------------------------------------------------------------------
    if "COLR" in raw:
        bad += _colr(raw["COLR"], font, n)
    if "SVG " in raw:
        bad += _svg(raw["SVG "], n)
    if "CBLC" in raw:
        bad += _cblc(font, raw, order)
    if "sbix" in font:
        for ppem, strike in font["sbix"].strikes.items():
            for g in strike.glyphs:
                if g not in font["hmtx"].metrics:
                    bad.append(("C07.sbix", f"strike {ppem} has unknown glyph {g}"))
    # ---- layout tables: coverage tables list glyphs in increasing glyph-ID order (sanitisers drop the table otherwise) --------
    bad += _coverage_sorted(data)
    if bitmap_glyphs is not None:
        # exactly one bitmap for every glyph the caller knows to be a colour glyph
        for gid in sorted(bitmap_glyphs):
            g = order[gid] if gid < len(order) else None
            if "CBLC" in raw:
                cnt = sum(1 for sd in font["CBDT"].strikeData if g in sd)
            elif "sbix" in font:
                cnt = sum(1 for st in font["sbix"].strikes.values() if g in st.glyphs and st.glyphs[g].imageData)
            else:
                continue
            if cnt != 1:
                bad.append(("C07.one-bitmap-per-colour-glyph", f"colour glyph {g} (gid {gid}) has {cnt} bitmaps"))
    return bad


def _colr(d, font, n):
    bad = []
    version, nbase, obase, olayer, nlayer = struct.unpack(">HHIIH", d[:14])
    npal = font["CPAL"].numPaletteEntries if "CPAL" in font else 0
    last = -1
    for i in range(nbase):
        gid, first, num = struct.unpack(">HHH", d[obase + 6 * i: obase + 6 * i + 6])
        if gid <= last:
            bad.append(("C07.colr-base-sorted", f"v0 base glyph records not strictly increasing at record {i} (gid {gid} after {last})"))
        last = gid
        if gid >= n:
            bad.append(("C07.colr-glyph-range", f"v0 base glyph {gid} >= numGlyphs {n}"))
        if first + num > nlayer:
            bad.append(("C07.colr-layer-range", f"base glyph {gid}: layers {first}+{num} > {nlayer}"))
    for i in range(nlayer):
        gid, pal = struct.unpack(">HH", d[olayer + 4 * i: olayer + 4 * i + 4])
        if gid >= n:
            bad.append(("C07.colr-glyph-range", f"layer {i} glyph {gid} >= numGlyphs {n}"))
        if pal != 0xFFFF and pal >= npal:
            bad.append(("C07.colr-palette-range", f"layer {i} palette index {pal} >= {npal}"))
    if version >= 1:
        obgl, oll, oclip = struct.unpack(">III", d[14:26])
        if obgl:
            (cnt,) = struct.unpack(">I", d[obgl: obgl + 4])
            last = -1
            for i in range(cnt):
                gid, off = struct.unpack(">HI", d[obgl + 4 + 6 * i: obgl + 10 + 6 * i])
                if gid <= last:
                    bad.append(("C07.colr-base-sorted", f"v1 base glyph paint records not strictly increasing at record {i} (gid {gid} after {last})"))
                last = gid
                if gid >= n:
                    bad.append(("C07.colr-glyph-range", f"v1 base glyph {gid} >= numGlyphs {n}"))
        if oclip:
            fmt, cnt = struct.unpack(">BI", d[oclip: oclip + 5])
            prev_end = -1
            for i in range(cnt):
                s, e = struct.unpack(">HH", d[oclip + 5 + 7 * i: oclip + 9 + 7 * i])
                if s > e or s <= prev_end:
                    bad.append(("C07.colr-clip-sorted", f"clip record {i} [{s},{e}] after end {prev_end}"))
                prev_end = e
                if e >= n:
                    bad.append(("C07.colr-glyph-range", f"clip range end {e} >= numGlyphs {n}"))
        # decompiled walk: glyph and palette references
        colr = font["COLR"].table
        order = set(font.getGlyphOrder())
        from fontTools.ttLib.tables.otTables import PaintFormat as PF

        seen = set()

        def walk(p, depth=0):
            if id(p) in seen or depth > 64:
                return
            seen.add(id(p))
            if p.Format in (PF.PaintGlyph, PF.PaintColrGlyph) and p.Glyph not in order:
                bad.append(("C07.colr-glyph-range", f"paint references unknown glyph {p.Glyph}"))
            if p.Format == PF.PaintSolid and p.PaletteIndex != 0xFFFF and p.PaletteIndex >= npal:
                bad.append(("C07.colr-palette-range", f"PaintSolid palette index {p.PaletteIndex} >= {npal}"))
            if p.Format in (PF.PaintLinearGradient, PF.PaintRadialGradient, PF.PaintSweepGradient):
                for st in p.ColorLine.ColorStop:
                    if st.PaletteIndex != 0xFFFF and st.PaletteIndex >= npal:
                        bad.append(("C07.colr-palette-range", f"colour stop palette index {st.PaletteIndex} >= {npal}"))
            if p.Format == PF.PaintColrLayers:
                nl = len(colr.LayerList.Paint) if colr.LayerList else 0
                if p.FirstLayerIndex + p.NumLayers > nl:
                    bad.append(("C07.colr-layer-range", f"PaintColrLayers {p.FirstLayerIndex}+{p.NumLayers} > {nl}"))
            for ch in p.getChildren(colr):
                walk(ch, depth + 1)

        if colr.BaseGlyphList:
            for r in colr.BaseGlyphList.BaseGlyphPaintRecord:
                walk(r.Paint)
    return bad


_URL = re.compile(r"url\(#([^)]+)\)")


def _svg(d, n):
    bad = []
    version, olist = struct.unpack(">HI", d[:6])
    (cnt,) = struct.unpack(">H", d[olist: olist + 2])
    prev_end = -1
    for i in range(cnt):
        s, e, off, ln = struct.unpack(">HHII", d[olist + 2 + 12 * i: olist + 14 + 12 * i])
        if s > e:
            bad.append(("C07.svg-ranges", f"document {i}: start {s} > end {e}"))
        if s <= prev_end:
            bad.append(("C07.svg-ranges", f"document {i} [{s},{e}] not after previous end {prev_end} (records must be sorted by start glyph, ranges disjoint)"))
        prev_end = max(prev_end, e)
        if e >= n:
            bad.append(("C07.svg-ranges", f"document {i} end gid {e} >= numGlyphs {n}"))
        doc = d[olist + off: olist + off + ln]
        if doc[:2] == b"\x1f\x8b":
            try:
                doc = gzip.decompress(doc)
            except Exception as ex:
                bad.append(("C07.svg-wellformed", f"document {i}: bad gzip: {ex}"))
                continue
        try:
            root = etree.fromstring(doc)
        except Exception as ex:
            bad.append(("C07.svg-wellformed", f"document {i}: {ex}"))
            continue
        ids = {}
        for el in root.iter():
            if isinstance(el.tag, str) and el.get("id") is not None:
                if el.get("id") in ids:
                    bad.append(("C07.svg-unique-ids", f"document {i}: id {el.get('id')} occurs twice"))
                ids[el.get("id")] = el
        glyph_els = {k: v for k, v in ids.items() if re.fullmatch(r"glyph\d+", k)}
        for k in glyph_els:
            gid = int(k[5:])
            if not (s <= gid <= e):
                bad.append(("C07.svg-ranges", f"document {i} [{s},{e}] holds element {k}"))

        def owner(el):
            while el is not None:
                if el.get("id") in glyph_els and glyph_els[el.get("id")] is el:
                    return el.get("id")
                el = el.getparent()
            return None

        for el in root.iter():
            if not isinstance(el.tag, str):
                continue
            refs = []
            for attr in (XLINK, "href"):
                if el.get(attr):
                    if not el.get(attr).startswith("#"):
                        bad.append(("C07.svg-href-local", f"document {i}: external reference {el.get(attr)}"))
                    else:
                        refs.append(el.get(attr)[1:])
            for v in el.attrib.values():
                refs += _URL.findall(v)
            for r in refs:
                if r not in ids:
                    bad.append(("C07.svg-href-resolves", f"document {i}: reference to #{r} does not resolve inside its own document"))
                    continue
                o_t, o_s = owner(ids[r]), owner(el)
                if o_t is not None and o_t != o_s and ids[r] is not glyph_els.get(o_t):
                    bad.append(("C07.svg-no-cross-glyph-ref", f"document {i}: {o_s} references #{r} which lives inside {o_t}"))
    return bad


def _cblc(font, raw, order):
    bad = []
    cblc, cbdt = font["CBLC"], font["CBDT"]
    cbdt_len = len(raw["CBDT"])
    gid_of = {g: i for i, g in enumerate(order)}
    for si, strike in enumerate(cblc.strikes):
        seen = {}
        spans = []
        for ti, st in enumerate(strike.indexSubTables):
            gids = [gid_of[g] for g in st.names]
            if gids != list(range(st.firstGlyphIndex, st.lastGlyphIndex + 1)):
                bad.append(("C07.cblc-consecutive", f"strike {si} index sub-table {ti}: glyph ids {gids} are not the run {st.firstGlyphIndex}..{st.lastGlyphIndex}"))
            for g in st.names:
                if g in seen:
                    bad.append(("C07.cblc-one-bitmap", f"strike {si}: {g} indexed twice"))
                seen[g] = ti
            for (a, b) in getattr(st, "locations", []):
                if not (4 <= a <= b <= cbdt_len):
                    bad.append(("C07.cblc-offsets", f"strike {si} sub-table {ti}: location {a}..{b} outside CBDT ({cbdt_len} bytes)"))
                spans.append((a, b))
        spans.sort()
        for (a, b), (c, d) in zip(spans, spans[1:]):
            if c < b:
                bad.append(("C07.cblc-offsets", f"strike {si}: bitmap data {a}..{b} overlaps {c}..{d}"))
        data = cbdt.strikeData[si] if si < len(cbdt.strikeData) else {}
        if set(data) != set(seen):
            bad.append(("C07.cblc-one-bitmap", f"strike {si}: CBLC indexes {sorted(seen)} but CBDT holds {sorted(data)}"))
        bst = strike.bitmapSizeTable
        if seen and (bst.startGlyphIndex != min(gid_of[g] for g in seen) or bst.endGlyphIndex != max(gid_of[g] for g in seen)):
            bad.append(("C07.cblc-range", f"strike {si}: bitmapSizeTable range {bst.startGlyphIndex}..{bst.endGlyphIndex} != indexed glyphs"))
    return bad


def _coverage_sorted(data):
    """reads the file once more with a probe on Coverage.postRead: format 1 glyph ids strictly increasing, format 2 ranges
    sorted with consecutive start coverage indices"""
    from fontTools.ttLib.tables import otTables as ot

    found = []
    orig = ot.Coverage.postRead

    def postRead(self, rawTable, font):
        try:
            if self.Format == 1:
                ids = [font.getGlyphID(g) for g in rawTable["GlyphArray"]]
                if any(b <= a for a, b in zip(ids, ids[1:])):
                    found.append(f"format 1 coverage lists glyph ids {ids}")
            elif self.Format == 2:
                prev_end, nxt = -1, 0
                for r in rawTable["RangeRecord"]:
                    s_, e_ = font.getGlyphID(r.Start), font.getGlyphID(r.End)
                    if s_ <= prev_end or e_ < s_ or r.StartCoverageIndex != nxt:
                        found.append(f"format 2 coverage range {s_}..{e_} with start index {r.StartCoverageIndex} after end {prev_end}")
                    nxt += e_ - s_ + 1
                    prev_end = e_
        except Exception:
            pass
        return orig(self, rawTable, font)

    ot.Coverage.postRead = postRead
    try:
        f = TTFont(io.BytesIO(data), lazy=False)
        for tag in ("GSUB", "GPOS", "GDEF"):
            if tag in f:
                f[tag].ensureDecompiled() if hasattr(f[tag], "ensureDecompiled") else None
    except Exception as e:
        return [("C07.loads", f"layout tables: {type(e).__name__}: {e}")]
    finally:
        ot.Coverage.postRead = orig
    # PairPos format 1: the records of a PairSet are ordered by the glyph id of the second glyph (consumers search them)
    pairs = []
    try:
        if "GPOS" in f and f["GPOS"].table.LookupList:
            for li, lk in enumerate(f["GPOS"].table.LookupList.Lookup):
                for st in lk.SubTable:
                    st = getattr(st, "ExtSubTable", st)
                    if type(st).__name__ == "PairPos" and st.Format == 1:
                        for ps in st.PairSet:
                            ids = [f.getGlyphID(r.SecondGlyph) for r in ps.PairValueRecord]
                            if any(b <= a for a, b in zip(ids, ids[1:])):
                                pairs.append(f"GPOS lookup {li}: a PairSet lists second glyph ids {ids}")
    except Exception as e:
        return [("C07.loads", f"GPOS pair sets: {type(e).__name__}: {e}")]
    return ([("C07.coverage-sorted", found[0])] if found else []) + ([("C07.pairset-sorted", pairs[0])] if pairs else [])
