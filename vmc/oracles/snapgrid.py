"""Generic-position test for C19, computed from the scene data alone.

picosvg's matcher keys an outline on a normal form: the path is made relative, the first
edge is mapped onto (1,0), the first y-activity is scaled to 1, and every number is
rounded to a multiple of `step` (= reuse_tolerance/10 in nanoemoji). An outline one of
whose normal-form numbers sits on a rounding boundary ((k+0.5)*step) is split by float
noise. margin() returns how far (in steps) the closest number is from such a boundary.
Written from the description above; does not call picosvg's normalize."""
import math
import re


def _rel_vectors(d):
    """absolute M/L/C/Q/Z path -> list of (cmd, [relative (x,y) pairs])"""
    toks = re.findall(r"([MLCQZ])([^MLCQZ]*)", d)
    cur = start = None
    out = []
    for cmd, args in toks:
        nums = [float(v) for v in re.findall(r"-?\d*\.?\d+(?:e-?\d+)?", args)]
        pts = [(nums[i], nums[i + 1]) for i in range(0, len(nums), 2)]
        if cmd == "M":
            cur = start = pts[0]
            continue
        if cmd == "Z":
            cur = start
            continue
        out.append((cmd, [(p[0] - cur[0], p[1] - cur[1]) for p in pts]))
        cur = pts[-1]
    return out


def normal_form_numbers(d, tolerance):
    vecs = _rel_vectors(d)
    sig = 5 * tolerance
    first = next((v[-1] for _, v in vecs if math.hypot(*v[-1]) > sig), None)
    if first is None:
        return []
    ang = -math.atan2(first[1], first[0])
    s = 1 / math.hypot(*first)
    c, sn = math.cos(ang) * s, math.sin(ang) * s
    rot = [[(x * c - y * sn, x * sn + y * c) for x, y in v] for _, v in vecs]
    fy = next((v[-1][1] for v in rot if abs(v[-1][1]) > sig), None)
    ys = 1 / fy if fy else 1.0
    nums = []
    for v in rot:
        for x, y in v:
            nums += [x, y * ys]
    return nums


def margin(d, tolerance):
    """distance (in steps) of the closest normal-form number from a rounding boundary"""
    step = tolerance
    best = 0.5
    for n in normal_form_numbers(d, tolerance):
        frac = (n / step) % 1.0
        best = min(best, abs(frac - 0.5))
    return best
