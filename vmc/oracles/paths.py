"""Outline geometry helpers (skia-pathops + numpy); never imports nanoemoji."""
import math
import pathops
from fontTools.pens.basePen import BasePen

from . import aff


class SkiaPen(BasePen):
    def __init__(self, gs):
        super().__init__(gs)
        self.path = pathops.Path()

    def _moveTo(self, p):
        self.path.moveTo(*p)

    def _lineTo(self, p):
        self.path.lineTo(*p)

    def _curveToOne(self, a, b, c):
        self.path.cubicTo(*a, *b, *c)

    def _qCurveToOne(self, a, b):
        self.path.quadTo(*a, *b)

    def _closePath(self):
        self.path.close()

    def _endPath(self):
        pass


def glyph_path(glyphset, name):
    pen = SkiaPen(glyphset)
    glyphset[name].draw(pen)
    return pen.path


def svg_path(d, rule="nonzero"):
    from picosvg.svg_types import SVGPath
    from picosvg.svg_pathops import skia_path

    return skia_path(SVGPath(d=d).as_cmd_seq(), rule)


def polyline(path, m=aff.I, n=8):
    """dense list of points along the outline (each contour closed), mapped by m"""
    from pathops import PathVerb as V

    def lerp(a, b):
        return [(a[0] + (b[0] - a[0]) * t / n, a[1] + (b[1] - a[1]) * t / n) for t in range(1, n + 1)]

    pts = []
    cur = start = None
    for verb, args in path:  # raw skia verbs: explicit points, no TrueType-style implied ones
        if verb == V.MOVE:
            cur = start = args[0]
            pts.append(cur)
        elif verb == V.LINE:
            pts += lerp(cur, args[0])
            cur = args[0]
        elif verb == V.QUAD:
            a, (b, c) = cur, args
            for t in range(1, n + 1):
                u = t / n
                pts.append(((1 - u) ** 2 * a[0] + 2 * u * (1 - u) * b[0] + u * u * c[0],
                            (1 - u) ** 2 * a[1] + 2 * u * (1 - u) * b[1] + u * u * c[1]))
            cur = c
        elif verb == V.CUBIC:
            a, (b, c, d) = cur, args
            for t in range(1, n + 1):
                u = t / n
                w0, w1, w2, w3 = (1 - u) ** 3, 3 * u * (1 - u) ** 2, 3 * u * u * (1 - u), u ** 3
                pts.append((w0 * a[0] + w1 * b[0] + w2 * c[0] + w3 * d[0], w0 * a[1] + w1 * b[1] + w2 * c[1] + w3 * d[1]))
            cur = d
        elif verb == V.CLOSE:
            if start is not None and cur != start:
                pts += lerp(cur, start)
                cur = start
        else:
            raise NotImplementedError(verb)
    return [aff.ap(m, p) for p in pts]


def directed_hausdorff(A, B):
    """max over the points of A of the distance to the nearest point of B (dense samples)"""
    if not A or not B:
        return 0.0 if len(A) == len(B) else float("inf")
    worst = 0.0
    for ax, ay in A:
        best = min((ax - bx) * (ax - bx) + (ay - by) * (ay - by) for bx, by in B)
        if best > worst:
            worst = best
    return math.sqrt(worst)


def hausdorff(A, B):
    return max(directed_hausdorff(A, B), directed_hausdorff(B, A))


def spacing(P):
    return max((math.hypot(P[i + 1][0] - P[i][0], P[i + 1][1] - P[i][1]) for i in range(len(P) - 1)), default=0.0)


def bounds(P):
    xs = [p[0] for p in P]
    ys = [p[1] for p in P]
    return (min(xs), min(ys), max(xs), max(ys))


def interior_points(path, m=aff.I, n=6):
    """points of an n x n lattice over the bounds that lie inside the path (mapped by m)"""
    b = path.bounds
    out = []
    for i in range(n):
        for j in range(n):
            q = (b[0] + (b[2] - b[0]) * (i + 0.5) / n, b[1] + (b[3] - b[1]) * (j + 0.5) / n)
            if path.contains(q):
                out.append(aff.ap(m, q))
    return out
