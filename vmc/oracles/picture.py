"""The comparison rule of DESIGN.md section 3.1 (no anti-aliasing, no golden pixels)."""

THETA = 12 / 255
TAU = 4 / 255


def lattice(x0, x1, y0, y1, G):
    return [
        (x0 + (x1 - x0) * (i + 0.5) / G, y0 + (y1 - y0) * (j + 0.5) / G)
        for i in range(G)
        for j in range(G)
    ]


def stencil(ref_at, p, delta):
    """reference colours at p and on square rings of radius delta, delta/2, ... >= ~1 unit"""
    refs = [ref_at(p)]
    r = max(delta, 1.0)
    while r >= 0.9:
        for dx in (-r, 0, r):
            for dy in (-r, 0, r):
                if dx or dy:
                    refs.append(ref_at((p[0] + dx, p[1] + dy)))
        r /= 2
    return refs


def compare(ref_at, out_at, probes, delta, theta=THETA, tau=TAU, keep=4):
    """-> dict(valid, skipped, bad, worst, first) ; colours premultiplied RGBA 0..1"""
    valid = skipped = bad = 0
    worst = 0.0
    first = []
    for p in probes:
        refs = stencil(ref_at, p, delta)
        lo = [min(r[k] for r in refs) for k in range(4)]
        hi = [max(r[k] for r in refs) for k in range(4)]
        if max(h - l for h, l in zip(hi, lo)) > theta:
            skipped += 1
            continue
        out = out_at(p)
        err = max(max(lo[k] - out[k], out[k] - hi[k], 0) for k in range(4))
        worst = max(worst, err)
        valid += 1
        if err > tau:
            bad += 1
            if len(first) < keep:
                first.append(
                    {"p": [round(p[0], 2), round(p[1], 2)],
                     "ref": [round(v, 3) for v in refs[0]],
                     "out": [round(v, 3) for v in out]}
                )
    return {"valid": valid, "skipped": skipped, "bad": bad, "worst": round(worst * 255, 2), "first": first}
