import math
def extend_t(t,mode):
    if mode=="pad": return min(1.0,max(0.0,t))
    if mode=="repeat": return t-math.floor(t)
    if mode=="reflect":
        t=t%2.0
        return t if t<=1 else 2-t
    raise ValueError(mode)
def colorline(stops,t,mode):
    # stops: sorted list of (offset,(r,g,b,a)) non-premultiplied 0..1
    t=extend_t(t,mode)
    if t<=stops[0][0]: return stops[0][1]
    if t>=stops[-1][0]: return stops[-1][1]
    for (o0,c0),(o1,c1) in zip(stops,stops[1:]):
        if o0<=t<=o1:
            if o1==o0: return c1
            u=(t-o0)/(o1-o0)
            return tuple(c0[i]+(c1[i]-c0[i])*u for i in range(4))
    return stops[-1][1]
def linear_t(p0,p1,p2,q):
    # COLR 3-point linear gradient: project onto p0->p3 where p3 = p0 + proj of (p1-p0) onto perp(p2-p0)
    vx,vy=p1[0]-p0[0],p1[1]-p0[1]
    nx,ny=p2[0]-p0[0],p2[1]-p0[1]
    # perpendicular to normal
    px,py=-ny,nx
    pp=px*px+py*py
    if pp==0: return None
    k=(vx*px+vy*py)/pp
    gx,gy=px*k,py*k   # p3-p0
    gg=gx*gx+gy*gy
    if gg==0: return None
    return ((q[0]-p0[0])*gx+(q[1]-p0[1])*gy)/gg
def radial_t(c0,r0,c1,r1,q):
    # two-point conical: largest t with r(t)>=0 and |q-c(t)|=r(t)
    cdx,cdy=c1[0]-c0[0],c1[1]-c0[1]; dr=r1-r0
    pdx,pdy=q[0]-c0[0],q[1]-c0[1]
    a=cdx*cdx+cdy*cdy-dr*dr
    b=pdx*cdx+pdy*cdy+r0*dr
    c=pdx*pdx+pdy*pdy-r0*r0
    if abs(a)<1e-12:
        if abs(b)<1e-12: return None
        t=c/(2*b)
        return t if r0+t*dr>=0 else None
    disc=b*b-a*c
    if disc<0: return None
    s=math.sqrt(disc)
    t1=(b+s)/a; t2=(b-s)/a
    for t in sorted((t1,t2),reverse=True):
        if r0+t*dr>=0: return t
    return None
