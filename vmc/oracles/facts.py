"""O-FACTS: a name-keyed reading of a font. Every array that the OpenType spec indexes by
coverage is zipped with its coverage into {glyph name -> record}; class definitions become
{name -> class}; everything else is kept structurally. Two fonts with equal facts apply the
same substitution / positioning to every *named* glyph, whatever their glyph order is.
The table of (sub-table type, format) -> coverage/parallel-array pairs is written from the
spec; it does not import nanoemoji."""
from fontTools.ttLib.tables import otBase
from fontTools.ttLib.tables import otTables as ot

# (class name, Format or None) -> [(coverage attribute, dotted parallel attribute or None)]
ZIP = {
    ("SinglePos", 1): [("Coverage", None)],
    ("SinglePos", 2): [("Coverage", "Value")],
    ("PairPos", 1): [("Coverage", "PairSet")],
    ("PairPos", 2): [("Coverage", None)],
    ("CursivePos", 1): [("Coverage", "EntryExitRecord")],
    ("MarkBasePos", 1): [("MarkCoverage", "MarkArray.MarkRecord"), ("BaseCoverage", "BaseArray.BaseRecord")],
    ("MarkLigPos", 1): [("MarkCoverage", "MarkArray.MarkRecord"), ("LigatureCoverage", "LigatureArray.LigatureAttach")],
    ("MarkMarkPos", 1): [("Mark1Coverage", "Mark1Array.MarkRecord"), ("Mark2Coverage", "Mark2Array.Mark2Record")],
    ("ContextPos", 1): [("Coverage", "PosRuleSet")],
    ("ContextPos", 2): [("Coverage", None)],
    ("ContextPos", 3): [("Coverage", None)],
    ("ChainContextPos", 1): [("Coverage", "ChainPosRuleSet")],
    ("ChainContextPos", 2): [("Coverage", None)],
    ("ChainContextPos", 3): [("BacktrackCoverage", None), ("InputCoverage", None), ("LookAheadCoverage", None)],
    ("ContextSubst", 1): [("Coverage", "SubRuleSet")],
    ("ContextSubst", 2): [("Coverage", None)],
    ("ContextSubst", 3): [("Coverage", None)],
    ("ChainContextSubst", 1): [("Coverage", "ChainSubRuleSet")],
    ("ChainContextSubst", 2): [("Coverage", None)],
    ("ChainContextSubst", 3): [("BacktrackCoverage", None), ("InputCoverage", None), ("LookAheadCoverage", None)],
    ("ReverseChainSingleSubst", 1): [("Coverage", "Substitute"), ("BacktrackCoverage", None), ("LookAheadCoverage", None)],
    ("AttachList", None): [("Coverage", "AttachPoint")],
    ("LigCaretList", None): [("Coverage", "LigGlyph")],
    ("MarkGlyphSetsDef", None): [("Coverage", None)],
}
# lists that the spec orders by the glyph id of a member -> keyed by that glyph instead
KEYED = {"PairSet": ("PairValueRecord", "SecondGlyph")}


class FactError(Exception):
    pass


def _get(obj, dotted):
    for a in dotted.split("."):
        obj = getattr(obj, a)
    return obj


def canon(v, override=None):
    """-> nested tuples/dicts/frozensets, hashable where it matters, comparable with =="""
    override = override or {}
    if isinstance(v, ot.Coverage):
        return ("coverage-set", frozenset(v.glyphs))
    if isinstance(v, ot.ClassDef):
        return ("classdef", tuple(sorted(v.classDefs.items())))
    if isinstance(v, otBase.ValueRecord):
        return ("value", tuple(sorted((k, x) for k, x in v.__dict__.items() if isinstance(x, int))))
    if isinstance(v, otBase.BaseTable):
        name = type(v).__name__
        fmt = getattr(v, "Format", None)
        rules = ZIP.get((name, fmt), ZIP.get((name, None), []))
        ov = {}
        for cov_attr, par in rules:
            cov = getattr(v, cov_attr, None)
            if cov is None:
                continue
            if isinstance(cov, list):
                ov[cov_attr] = tuple(canon(c) for c in cov)  # position in the list is meaningful (sequence position / set number)
                continue
            ov[cov_attr] = canon(cov)
            if par:
                lst = _get(v, par)
                if lst is None or len(lst) != len(cov.glyphs):
                    raise FactError(f"{name}.{par}: {0 if lst is None else len(lst)} records for {len(cov.glyphs)} covered glyphs")
                zipped = ("by-glyph", tuple(sorted(((g, canon(x)) for g, x in zip(cov.glyphs, lst)), key=lambda t: t[0])))
                if len({g for g in cov.glyphs}) != len(cov.glyphs):
                    raise FactError(f"{name}.{cov_attr}: duplicate glyph in coverage")
                if "." in par:
                    head, tail = par.split(".", 1)
                    ov.setdefault(head, {})[tail] = zipped
                else:
                    ov[par] = zipped
        if name in KEYED:
            lattr, key = KEYED[name]
            lst = getattr(v, lattr)
            ov[lattr] = ("by-glyph", tuple(sorted(((getattr(x, key), canon(x)) for x in lst), key=lambda t: t[0])))
        out = []
        for k, x in sorted(v.__dict__.items()):
            if k.startswith("_") or k in ("reader", "font", "sortCoverageLast"):
                continue
            if k.endswith("Count") or k in ("LookupType", "ExtensionLookupType"):
                continue
            if k in ov and not isinstance(ov[k], dict):
                out.append((k, ov[k]))
            elif k in ov:
                out.append((k, canon(x, ov[k])))
            elif k in override:
                out.append((k, override[k]))
            else:
                out.append((k, canon(x)))
        return (name, fmt, tuple(out))
    if isinstance(v, dict):
        return ("dict", tuple(sorted(((k, canon(x)) for k, x in v.items()), key=lambda t: repr(t[0]))))
    if isinstance(v, (list, tuple)):
        return tuple(canon(x) for x in v)
    if isinstance(v, (int, float, str, bool)) or v is None:
        return v
    if hasattr(v, "__dict__"):
        return (type(v).__name__, tuple(sorted((k, canon(x)) for k, x in v.__dict__.items() if not k.startswith("_"))))
    return repr(v)


def layout_facts(font):
    out = {}
    for tag in ("GSUB", "GPOS", "GDEF"):
        if tag in font:
            out[tag] = canon(font[tag].table)
    return out


def outline_facts(font):
    from fontTools.pens.recordingPen import RecordingPen

    gs = font.getGlyphSet()
    out = {}
    for g in font.getGlyphOrder():
        pen = RecordingPen()
        gs[g].draw(pen)
        out[g] = tuple((op, tuple(args)) for op, args in pen.value)
    return out


def colr_facts(font):
    if "COLR" not in font:
        return None
    colr = font["COLR"]
    if colr.version == 0:
        return ("v0", tuple(sorted((g, tuple((l.name, l.colorID) for l in ls)) for g, ls in colr.ColorLayers.items())))
    t = colr.table

    def paint(p):
        d = []
        for k, x in sorted(p.__dict__.items()):
            if k.startswith("_") or k in ("FirstLayerIndex", "NumLayers"):
                continue
            if isinstance(x, ot.Paint):
                d.append((k, paint(x)))
            elif isinstance(x, otBase.BaseTable):
                d.append((k, canon(x)))
            else:
                d.append((k, x))
        if p.Format == ot.PaintFormat.PaintColrLayers:
            d.append(("layers", tuple(paint(c) for c in t.LayerList.Paint[p.FirstLayerIndex: p.FirstLayerIndex + p.NumLayers])))
        return tuple(d)

    recs = tuple(sorted((r.BaseGlyph, paint(r.Paint)) for r in t.BaseGlyphList.BaseGlyphPaintRecord))
    clips = ()
    if t.ClipList:
        clips = tuple(sorted((g, (c.xMin, c.yMin, c.xMax, c.yMax)) for g, c in t.ClipList.clips.items()))
    v0 = ()
    if getattr(t, "BaseGlyphRecordArray", None):
        v0 = tuple(sorted((r.BaseGlyph, r.FirstLayerIndex, r.NumLayers) for r in t.BaseGlyphRecordArray.BaseGlyphRecord))
    return ("v1", recs, clips, v0)


def all_facts(font):
    f = {"cmap": tuple(sorted(font.getBestCmap().items())) if font.getBestCmap() else (),
         "cmaps": tuple(sorted((t.platformID, t.platEncID, t.format, tuple(sorted(t.cmap.items()))) for t in font["cmap"].tables)),
         "hmtx": tuple(sorted(font["hmtx"].metrics.items())),
         "outlines": tuple(sorted(outline_facts(font).items())),
         "colr": colr_facts(font)}
    f.update(layout_facts(font))
    return f


def diff(a, b):
    """names of the facts that differ"""
    return [k for k in sorted(set(a) | set(b)) if a.get(k) != b.get(k)]
