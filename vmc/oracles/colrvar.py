"""Evaluate a variable COLRv1 table at an axis location (the installed fontTools instancer does
not touch COLR): deltas from the ItemVariationStore are added to the variable fields in the
order the OpenType spec lists them, then every paint is marked non-variable.
Written from the COLR v1 spec; never imports nanoemoji."""
from fontTools.ttLib.tables.otTables import PaintFormat as PF
from fontTools.varLib.models import normalizeLocation
from fontTools.varLib.varStore import VarStoreInstancer

NO_VAR = 0xFFFFFFFF
F2 = 1 / 16384.0
FX = 1 / 65536.0
ANG = 180.0 / 16384.0
# format -> [(attribute, scale of one raw delta unit)]
FIELDS = {
    int(PF.PaintVarSolid): [("Alpha", F2)],
    int(PF.PaintVarLinearGradient): [("x0", 1), ("y0", 1), ("x1", 1), ("y1", 1), ("x2", 1), ("y2", 1)],
    int(PF.PaintVarRadialGradient): [("x0", 1), ("y0", 1), ("r0", 1), ("x1", 1), ("y1", 1), ("r1", 1)],
    int(PF.PaintVarSweepGradient): [("centerX", 1), ("centerY", 1), ("startAngle", ANG), ("endAngle", ANG)],
    int(PF.PaintVarTranslate): [("dx", 1), ("dy", 1)],
    int(PF.PaintVarScale): [("scaleX", F2), ("scaleY", F2)],
    int(PF.PaintVarScaleAroundCenter): [("scaleX", F2), ("scaleY", F2), ("centerX", 1), ("centerY", 1)],
    int(PF.PaintVarScaleUniform): [("scale", F2)],
    int(PF.PaintVarScaleUniformAroundCenter): [("scale", F2), ("centerX", 1), ("centerY", 1)],
    int(PF.PaintVarRotate): [("angle", ANG)],
    int(PF.PaintVarRotateAroundCenter): [("angle", ANG), ("centerX", 1), ("centerY", 1)],
    int(PF.PaintVarSkew): [("xSkewAngle", ANG), ("ySkewAngle", ANG)],
    int(PF.PaintVarSkewAroundCenter): [("xSkewAngle", ANG), ("ySkewAngle", ANG), ("centerX", 1), ("centerY", 1)],
}


def instantiate_colr(vf, inst, location):
    """vf: the variable font (for fvar); inst: a font whose COLR is still the variable one (e.g. the
    result of fontTools' instancer); location: {axis tag: user value}. Mutates inst['COLR']."""
    colr = inst["COLR"].table
    if getattr(colr, "VarStore", None) is None:
        return inst
    axes = {a.axisTag: (a.minValue, a.defaultValue, a.maxValue) for a in vf["fvar"].axes}
    norm = normalizeLocation(location, axes)
    vsi = VarStoreInstancer(colr.VarStore, vf["fvar"].axes, norm)
    mapping = colr.VarIndexMap.mapping if getattr(colr, "VarIndexMap", None) else None

    def delta(base, k):
        idx = base + k
        if mapping is not None:
            idx = mapping[idx] if idx < len(mapping) else mapping[-1]
        return vsi[idx]

    def apply(obj, fields):
        base = getattr(obj, "VarIndexBase", NO_VAR)
        if base == NO_VAR:
            return
        for k, (attr, scale) in enumerate(fields):
            setattr(obj, attr, getattr(obj, attr) + delta(base, k) * scale)
        obj.VarIndexBase = NO_VAR

    seen = set()

    def walk(p):
        if id(p) in seen:
            return
        seen.add(id(p))
        f = int(p.Format)
        if f in FIELDS:
            apply(p, FIELDS[f])
        if f == int(PF.PaintVarTransform):
            apply(p.Transform, [("xx", FX), ("yx", FX), ("xy", FX), ("yy", FX), ("dx", FX), ("dy", FX)])
        if f in (int(PF.PaintVarLinearGradient), int(PF.PaintVarRadialGradient), int(PF.PaintVarSweepGradient)):
            for st in p.ColorLine.ColorStop:
                apply(st, [("StopOffset", F2), ("Alpha", F2)])
        for ch in p.getChildren(colr):
            walk(ch)

    for r in colr.BaseGlyphList.BaseGlyphPaintRecord:
        walk(r.Paint)
    if colr.LayerList:
        for p in colr.LayerList.Paint:
            walk(p)
    if colr.ClipList:
        for box in colr.ClipList.clips.values():
            if getattr(box, "Format", 1) == 2:
                apply(box, [("xMin", 1), ("yMin", 1), ("xMax", 1), ("yMax", 1)])
    colr.VarStore = None
    colr.VarIndexMap = None
    return inst
