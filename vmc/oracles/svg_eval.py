"""Point-wise semantics of the SVG subset nanoemoji reads and writes (never imports nanoemoji).

colour_at(p) -> premultiplied RGBA.  Supported: svg/g/path/rect/circle/ellipse/use/defs,
transform, opacity (isolated group alpha), inherited fill / fill-opacity (also through
<use>), x/y on <use>, linear/radial gradients (gradientUnits, gradientTransform,
spreadMethod, fx/fy/fr, href-less), stops with stop-opacity, colours: names, hex 3/4/6/8,
rgb(), currentColor, var(--colorN, c); nonzero / evenodd fill.
"""
import re

from lxml import etree
from picosvg.svg_types import SVGPath
from picosvg.svg_pathops import skia_path
from picosvg.svg_transform import Affine2D

from . import aff, grad
from .scene import NAMED

XL = "{http://www.w3.org/1999/xlink}href"
_VAR = re.compile(r"var\s*\(\s*--color([0-9]+)\s*,\s*(.+)\)\s*$")
_IGNORED = (None, "defs", "linearGradient", "radialGradient", "title", "desc", "metadata", "style", "clipPath", "mask")


def ln(el):
    return etree.QName(el.tag).localname if isinstance(el.tag, str) else None


def parse_transform(s):
    if not s:
        return aff.I
    return tuple(Affine2D.fromstring(s))


def num(s, ref=1.0):
    s = s.strip()
    return float(s[:-1]) / 100 * ref if s.endswith("%") else float(s)


def parse_color(s, fg):
    s = s.strip()
    m = _VAR.match(s)
    if m:
        s = m.group(2).strip()
    if s == "currentColor":
        return fg
    if s.startswith("#"):
        h = s[1:]
        if len(h) in (3, 4):
            h = "".join(c + c for c in h)
        a = int(h[6:8], 16) / 255 if len(h) == 8 else 1.0
        return (int(h[0:2], 16) / 255, int(h[2:4], 16) / 255, int(h[4:6], 16) / 255, a)
    if s.startswith("rgb("):
        v = [max(0, min(255, round(float(x)))) for x in re.split(r"[ ,]+", s[4:-1].strip()) if x]
        return (v[0] / 255, v[1] / 255, v[2] / 255, 1.0)
    r, g, b = NAMED[s]
    return (r / 255, g / 255, b / 255, 1.0)


def premul(c):
    return (c[0] * c[3], c[1] * c[3], c[2] * c[3], c[3])


def over(s, d):
    k = 1 - s[3]
    return tuple(s[i] + d[i] * k for i in range(4))


_INHERITED = ("fill", "fill-opacity", "fill-rule")


class SvgPicture:
    def __init__(self, text, fg=(0.2, 0.9, 0.4, 1.0)):
        if isinstance(text, str):
            text = text.encode()
        self.root = etree.fromstring(text)
        self.fg = fg
        self.ids = {}
        self.dup_ids = []
        for e in self.root.iter():
            if isinstance(e.tag, str) and e.get("id"):
                if e.get("id") in self.ids:
                    self.dup_ids.append(e.get("id"))
                self.ids[e.get("id")] = e
        self._paths = {}

    # geometry ------------------------------------------------------------
    def _shape_d(self, el):
        tag = ln(el)
        if tag == "path":
            return el.get("d")
        f = lambda k, d="0": float(el.get(k, d))
        if tag == "rect":
            x, y, w, h = f("x"), f("y"), f("width"), f("height")
            rx = el.get("rx")
            ry = el.get("ry")
            if rx is None and ry is None:
                return f"M{x},{y} L{x + w},{y} L{x + w},{y + h} L{x},{y + h} Z"
            rx = float(rx if rx is not None else ry)
            ry = float(ry if ry is not None else rx)
            rx, ry = min(rx, w / 2), min(ry, h / 2)
            return (
                f"M{x + rx},{y} L{x + w - rx},{y} A{rx},{ry} 0 0 1 {x + w},{y + ry} L{x + w},{y + h - ry} "
                f"A{rx},{ry} 0 0 1 {x + w - rx},{y + h} L{x + rx},{y + h} A{rx},{ry} 0 0 1 {x},{y + h - ry} "
                f"L{x},{y + ry} A{rx},{ry} 0 0 1 {x + rx},{y} Z"
            )
        if tag in ("circle", "ellipse"):
            cx, cy = f("cx"), f("cy")
            rx, ry = (f("r"), f("r")) if tag == "circle" else (f("rx"), f("ry"))
            return (
                f"M{cx - rx},{cy} A{rx},{ry} 0 1 1 {cx + rx},{cy} A{rx},{ry} 0 1 1 {cx - rx},{cy} Z"
            )
        if tag in ("polygon", "polyline"):
            pts = [float(v) for v in re.split(r"[ ,]+", el.get("points").strip()) if v]
            d = "M" + " L".join(f"{pts[i]},{pts[i + 1]}" for i in range(0, len(pts), 2))
            return d + " Z"
        raise NotImplementedError(tag)

    def path(self, el, rule):
        d = self._shape_d(el)
        k = (d, rule)  # never key on id(el): lxml proxies are recycled
        if k not in self._paths:
            sp = SVGPath(d=d)
            self._paths[k] = (skia_path(sp.as_cmd_seq(), rule), sp.bounding_box())
        return self._paths[k]

    # evaluation ----------------------------------------------------------
    def inherited(self, el):
        """fill / fill-opacity / fill-rule in force for the children of el's parent chain (nearest ancestor wins)"""
        inh = {"fill": "black"}
        chain = []
        a = el.getparent()
        while a is not None:
            chain.append(a)
            a = a.getparent()
        for a in reversed(chain):
            for k in _INHERITED:
                if a.get(k) is not None:
                    inh[k] = a.get(k)
        return inh

    def at_element(self, el_id, p):
        """p in the user space of the element's parent (for OT-SVG glyph elements that are
        children of the root without a viewBox: the document user space)."""
        el = self.ids[el_id]
        return self.ev(el, p, self.inherited(el))

    def at_doc(self, p):
        out = (0, 0, 0, 0)
        inh = {"fill": "black"}
        for k in _INHERITED:
            if self.root.get(k) is not None:
                inh[k] = self.root.get(k)
        for ch in self.root:
            out = over(self.ev(ch, p, inh), out)
        return out

    def ev(self, el, p, inh):
        tag = ln(el)
        if tag in _IGNORED:
            return (0, 0, 0, 0)
        inh = dict(inh)
        for k in _INHERITED:
            if el.get(k) is not None:
                inh[k] = el.get(k)
        T = parse_transform(el.get("transform"))
        if T != aff.I:
            if abs(aff.det(T)) < 1e-12:
                return (0, 0, 0, 0)
            q = aff.ap(aff.inv(T), p)
        else:
            q = p
        op = float(el.get("opacity", "1"))
        if tag in ("g", "svg"):
            out = (0, 0, 0, 0)
            for ch in el:
                out = over(self.ev(ch, q, inh), out)
        elif tag == "use":
            href = el.get(XL) or el.get("href")
            ref = self.ids[href[1:]]
            x = float(el.get("x", "0"))
            y = float(el.get("y", "0"))
            out = self.ev(ref, (q[0] - x, q[1] - y), inh)
        elif tag in ("path", "rect", "circle", "ellipse", "polygon"):
            sk, bb = self.path(el, inh.get("fill-rule", "nonzero"))
            if not sk.contains(q):
                return (0, 0, 0, 0)
            c = self.fill(inh["fill"], q, bb)
            fo = float(inh.get("fill-opacity", "1"))
            out = premul((c[0], c[1], c[2], c[3] * fo))
        else:
            raise NotImplementedError(tag)
        return tuple(v * op for v in out)

    def fill(self, f, q, bb):
        f = f.strip()
        if f == "none":
            return (0, 0, 0, 0)
        if f.startswith("url("):
            g = self.ids[f[f.index("#") + 1: f.index(")")]]
            return self.gradient(g, q, bb)
        return parse_color(f, self.fg)

    def gradient(self, g, q, bb):
        M = aff.I
        units = g.get("gradientUnits", "objectBoundingBox")
        if units == "objectBoundingBox":
            if bb.w == 0 or bb.h == 0:
                return (0, 0, 0, 0)
            M = (bb.w, 0, 0, bb.h, bb.x, bb.y)
        M = aff.mul(M, parse_transform(g.get("gradientTransform")))
        if abs(aff.det(M)) < 1e-18:
            return (0, 0, 0, 0)
        u = aff.ap(aff.inv(M), q)
        stops = []
        for s in g:
            if ln(s) != "stop":
                continue
            c = parse_color(s.get("stop-color", "black"), self.fg)
            stops.append((num(s.get("offset", "0")), (c[0], c[1], c[2], c[3] * num(s.get("stop-opacity", "1")))))
        fixed = []
        last = 0
        for o, c in stops:  # SVG: offsets are clamped to be non-decreasing
            o = max(last, min(1, max(0, o)))
            fixed.append((o, c))
            last = o
        if not fixed:
            return (0, 0, 0, 0)
        mode = g.get("spreadMethod", "pad")
        if ln(g) == "linearGradient":
            x1, y1, x2, y2 = (num(g.get(k, d)) for k, d in (("x1", "0"), ("y1", "0"), ("x2", "100%"), ("y2", "0")))
            dx, dy = x2 - x1, y2 - y1
            dd = dx * dx + dy * dy
            if dd == 0:
                return fixed[-1][1]
            return grad.colorline(fixed, ((u[0] - x1) * dx + (u[1] - y1) * dy) / dd, mode)
        cx, cy, r = (num(g.get(k, "50%")) for k in ("cx", "cy", "r"))
        fx = num(g.get("fx")) if g.get("fx") else cx
        fy = num(g.get("fy")) if g.get("fy") else cy
        fr = num(g.get("fr", "0"))
        t = grad.radial_t((fx, fy), fr, (cx, cy), r, u)
        if t is None:
            return (0, 0, 0, 0)
        return grad.colorline(fixed, t, mode)
