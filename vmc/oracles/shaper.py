"""O-SHAPE: the glyph a text engine reaches from a codepoint sequence.
cmap lookup + the LigatureSubst lookups of GSUB (features in LookupList order), on the
decompiled tables of the reloaded binary. Never imports nanoemoji."""


class UnsupportedLookup(Exception):
    pass


def ligature_lookups(font):
    if "GSUB" not in font:
        return []
    gsub = font["GSUB"].table
    if gsub.LookupList is None:
        return []
    used = set()
    if gsub.FeatureList is not None:
        for fr in gsub.FeatureList.FeatureRecord:
            # the features through which a sequence reaches its glyph (nanoemoji writes ccmp); other features of a
            # third-party input font (kerning-like contextual substitutions, ...) do not take part in that
            if fr.FeatureTag in ("ccmp", "rlig", "liga"):
                used.update(fr.Feature.LookupListIndex)
    out = []
    for i, lk in enumerate(gsub.LookupList.Lookup):
        if i not in used:
            continue
        for st in lk.SubTable:
            if st.LookupType == 7:
                st = st.ExtSubTable
            if st.LookupType != 4:
                raise UnsupportedLookup(f"GSUB lookup type {st.LookupType}")
            out.append(st.ligatures)
    return out


def shape(font, cps):
    """-> list of glyph names after cmap + ligature substitution"""
    cmap = font.getBestCmap()
    glyphs = []
    for cp in cps:
        if cp not in cmap:
            glyphs.append(".notdef")
        else:
            glyphs.append(cmap[cp])
    for ligs in ligature_lookups(font):
        i = 0
        out = []
        while i < len(glyphs):
            first = glyphs[i]
            done = False
            for lig in ligs.get(first, []):  # tried in the order stored in the binary
                comp = lig.Component
                if glyphs[i + 1: i + 1 + len(comp)] == list(comp):
                    out.append(lig.LigGlyph)
                    i += 1 + len(comp)
                    done = True
                    break
            if not done:
                out.append(first)
                i += 1
        glyphs = out
    return glyphs
