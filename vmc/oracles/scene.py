"""Scene model: the generator's own data structure for a source SVG and its reference
picture. Never imports nanoemoji. Colours returned by `at` are premultiplied RGBA."""
import math
import re

from picosvg.svg_types import SVGPath
from picosvg.svg_pathops import skia_path
from picosvg.svg_transform import Affine2D

from . import aff, grad

NAMED = {
    "red": (255, 0, 0), "blue": (0, 0, 255), "green": (0, 128, 0), "black": (0, 0, 0),
    "yellow": (255, 255, 0), "wheat": (245, 222, 179), "white": (255, 255, 255),
    "lime": (0, 255, 0), "cyan": (0, 255, 255), "magenta": (255, 0, 255),
    "orange": (255, 165, 0), "purple": (128, 0, 128), "gray": (128, 128, 128),
}


def _css_names():
    from PIL import ImageColor

    out = {}
    for k, v in ImageColor.colormap.items():
        out[k] = ImageColor.getrgb(v)[:3] if isinstance(v, str) else tuple(v[:3])
    return out


NAMED = dict(_css_names(), **NAMED)


def rgba(c):
    """colour string (name, #rgb, #rgba, #rrggbb, #rrggbbaa) -> (r,g,b,a) floats 0..1"""
    c = c.strip()
    if c.startswith("#"):
        h = c[1:]
        if len(h) in (3, 4):
            h = "".join(ch + ch for ch in h)
        a = int(h[6:8], 16) / 255 if len(h) == 8 else 1.0
        return (int(h[0:2], 16) / 255, int(h[2:4], 16) / 255, int(h[4:6], 16) / 255, a)
    m = re.match(r"rgb\((.*)\)$", c)
    if m:
        v = [max(0, min(255, round(float(x)))) for x in re.split(r"[ ,]+", m.group(1).strip()) if x]
        return (v[0] / 255, v[1] / 255, v[2] / 255, 1.0)
    r, g, b = NAMED[c]
    return (r / 255, g / 255, b / 255, 1.0)


OUT = {
    # asymmetric on purpose: a wrong rotation / reflection is visible
    "ell": "M10,10 L50,10 L50,25 L25,25 L25,60 L10,60 Z",
    "tri": "M5,5 L45,12 L20,40 Z",
    "blob": "M10,30 C10,10 40,5 50,20 C60,35 45,55 30,50 C18,47 10,45 10,30 Z",
    "oval": "M10,25 C10,15 20,8 35,8 C50,8 60,15 60,25 C60,35 50,42 35,42 C20,42 10,35 10,25 Z",
    "quad": "M8,30 Q20,2 52,12 Q40,44 8,30 Z",
    "ring": "M10,10 L54,10 L54,46 L10,46 Z M20,18 L20,38 L40,38 L40,18 Z",
    # generic-position L shape (edge ratios away from picosvg's snap grid)
    "ell2": "M10,10 L51,10 L51,26 L27,26 L27,63 L10,63 Z",
}


def place(d, m, nd=3):
    return SVGPath(d=d).apply_transform(Affine2D(*m)).round_floats(nd).d


def _fmt(v):
    return repr(float(v)) if not isinstance(v, str) else v


class Solid:
    kind = "solid"

    def __init__(self, color, current=False, pal=None):
        self.color, self.current, self.pal = color, current, pal

    def attr(self):
        c = "currentColor" if self.current else self.color
        if self.pal is not None:
            c = f"var(--color{self.pal}, {c})"
        return c

    defs = None

    def at(self, q, bbox, fg):
        if self.current:
            return fg
        return rgba(self.color)

    def colors(self):
        return [] if self.current else [(rgba(self.color), self.pal)]


def _stops_svg(stops):
    out = []
    for st in stops:
        o, c, op = st[:3]
        s = f'<stop offset="{o}" stop-color="{c}"'
        if op != 1:
            s += f' stop-opacity="{op}"'
        out.append(s + "/>")
    return "".join(out)


def _stop_rgba(c, fg):
    m = re.match(r"var\(--color\d+,\s*(.+)\)$", c)
    if m:
        c = m.group(1)
    if c == "currentColor":
        return fg
    return rgba(c)


def _num(v, ref=1.0):
    if isinstance(v, str):
        v = v.strip()
        return float(v[:-1]) / 100 * ref if v.endswith("%") else float(v)
    return float(v)


class Linear:
    kind = "linear"

    def __init__(self, gid, x1, y1, x2, y2, stops, units="objectBoundingBox", gt=None, spread="pad"):
        self.gid, self.p, self.stops = gid, (x1, y1, x2, y2), stops
        self.units, self.gt, self.spread = units, gt, spread

    def attr(self):
        return f"url(#{self.gid})"

    def _common(self):
        a = ""
        if self.units != "objectBoundingBox":
            a += f' gradientUnits="{self.units}"'
        if self.gt:
            a += ' gradientTransform="matrix(%s)"' % " ".join(repr(float(v)) for v in self.gt)
        if self.spread != "pad":
            a += f' spreadMethod="{self.spread}"'
        return a

    def defs(self):
        x1, y1, x2, y2 = self.p
        return (
            f'<linearGradient id="{self.gid}" x1="{x1}" y1="{y1}" x2="{x2}" y2="{y2}"'
            + self._common() + ">" + _stops_svg(self.stops) + "</linearGradient>"
        )

    def M(self, bbox):
        m = aff.I
        if self.units == "objectBoundingBox":
            x, y, w, h = bbox
            m = (w, 0, 0, h, x, y)
        if self.gt:
            m = aff.mul(m, self.gt)
        return m

    def _st(self, fg):
        st = []
        last = 0.0
        for s in self.stops:
            o = max(last, min(1.0, max(0.0, _num(s[0]))))
            c = _stop_rgba(s[1], fg)
            st.append((o, (c[0], c[1], c[2], c[3] * s[2])))
            last = o
        return st

    def at(self, q, bbox, fg):
        g = aff.ap(aff.inv(self.M(bbox)), q)
        x1, y1, x2, y2 = (_num(v) for v in self.p)
        dx, dy = x2 - x1, y2 - y1
        dd = dx * dx + dy * dy
        st = self._st(fg)
        if dd == 0:
            return st[-1][1]
        t = ((g[0] - x1) * dx + (g[1] - y1) * dy) / dd
        return grad.colorline(st, t, self.spread)

    def colors(self):
        out = []
        for s in self.stops:
            m = re.match(r"var\(--color(\d+),\s*(.+)\)$", s[1])
            if m:
                out.append((rgba(m.group(2)), int(m.group(1))))
            elif s[1] != "currentColor":
                out.append((rgba(s[1]), None))
        return out


class Radial(Linear):
    kind = "radial"

    def __init__(self, gid, cx, cy, r, stops, fx=None, fy=None, fr=0, units="objectBoundingBox", gt=None, spread="pad"):
        self.gid = gid
        self.c = (cx, cy, r)
        self.f = (cx if fx is None else fx, cy if fy is None else fy, fr)
        self.stops, self.units, self.gt, self.spread = stops, units, gt, spread

    def defs(self):
        a = f'<radialGradient id="{self.gid}" cx="{self.c[0]}" cy="{self.c[1]}" r="{self.c[2]}"'
        if self.f[:2] != self.c[:2]:
            a += f' fx="{self.f[0]}" fy="{self.f[1]}"'
        if self.f[2]:
            a += f' fr="{self.f[2]}"'
        return a + self._common() + ">" + _stops_svg(self.stops) + "</radialGradient>"

    def at(self, q, bbox, fg):
        g = aff.ap(aff.inv(self.M(bbox)), q)
        cx, cy, r = (_num(v) for v in self.c)
        fx, fy, fr = (_num(v) for v in self.f)
        t = grad.radial_t((fx, fy), fr, (cx, cy), r, g)
        if t is None:
            return (0, 0, 0, 0)
        return grad.colorline(self._st(fg), t, self.spread)


class Shape:
    def __init__(self, d, paint, opacity=1.0, label=None):
        self.d, self.paint, self.opacity, self.label = d, paint, opacity, label
        sp = SVGPath(d=d)
        self.path = skia_path(sp.as_cmd_seq(), "nonzero")
        b = sp.bounding_box()
        self.bbox = (b.x, b.y, b.w, b.h)

    def svg(self):
        a = f'<path d="{self.d}"'
        f = self.paint.attr()
        if f != "black":
            a += f' fill="{f}"'
        if self.opacity != 1:
            a += f' opacity="{self.opacity}"'
        return a + "/>"

    def defs(self):
        return [self.paint.defs()] if self.paint.defs else []

    def contains(self, q):
        return self.path.contains(q)

    def at(self, q, fg):
        if not self.path.contains(q):
            return (0, 0, 0, 0)
        r, g, b, a = self.paint.at(q, self.bbox, fg)
        a *= self.opacity
        return (r * a, g * a, b * a, a)

    def leaves(self):
        return [self]


class Group:
    def __init__(self, opacity, kids):
        self.opacity, self.kids = opacity, kids

    def svg(self):
        return f'<g opacity="{self.opacity}">' + "".join(k.svg() for k in self.kids) + "</g>"

    def defs(self):
        return [d for k in self.kids for d in k.defs()]

    def at(self, q, fg):
        out = (0, 0, 0, 0)
        for k in self.kids:
            c = k.at(q, fg)
            kk = 1 - c[3]
            out = tuple(c[i] + out[i] * kk for i in range(4))
        return tuple(v * self.opacity for v in out)

    def leaves(self):
        return [l for k in self.kids for l in k.leaves()]


class Glyph:
    def __init__(self, cps, vb, nodes):
        self.cps, self.vb, self.nodes = tuple(cps), tuple(vb), nodes

    def svg(self, extra_root_attrs=""):
        x, y, w, h = self.vb
        seen = set()
        defs = []
        for n in self.nodes:
            for d in n.defs():
                if d not in seen:
                    seen.add(d)
                    defs.append(d)
        return (
            '<svg xmlns="http://www.w3.org/2000/svg" xmlns:xlink="http://www.w3.org/1999/xlink" '
            f'viewBox="{_g(x)} {_g(y)} {_g(w)} {_g(h)}"{extra_root_attrs}>'
            f'<defs>{"".join(defs)}</defs>' + "".join(n.svg() for n in self.nodes) + "</svg>"
        )

    def at_vb(self, q, fg):
        out = (0, 0, 0, 0)
        for k in self.nodes:
            c = k.at(q, fg)
            kk = 1 - c[3]
            out = tuple(c[i] + out[i] * kk for i in range(4))
        return out

    def leaves(self):
        return [l for n in self.nodes for l in n.leaves()]


def _g(v):
    return "%g" % v


def advance(vb, asc, desc, width):
    x, y, w, h = vb
    return max(width, _round_half_even((asc - desc) * w / h))


def _round_half_even(v):
    return round(v)


def vb_to_font(vb, asc, desc, width, user=aff.I):
    """The placement rule of C01, written from the property text:
    uniform scale so that viewBox height spans descender..ascender, centred horizontally in
    the advance, y flipped; then the user transform."""
    x, y, w, h = vb
    adv = advance(vb, asc, desc, width)
    s = (asc - desc) / h
    dx = (adv - s * w) / 2
    m = (s, 0, 0, -s, dx - x * s, asc + y * s)
    return aff.mul(user, m), adv


def raw_svg(g, w_attr=64):
    """The same glyph printed as a *raw* (non-picosvg) document: width/height and
    enable-background on the root, the first solid top-level shape inside a translated
    <g>, the last solid top-level shape through <defs>+<use x y>. The picture is unchanged
    (only translations of solid shapes are involved), so the scene model stays the reference."""
    x, y, w, h = g.vb
    defs = []
    seen = set()
    for n in g.nodes:
        for d in n.defs():
            if d not in seen:
                seen.add(d)
                defs.append(d)
    solid_idx = [i for i, n in enumerate(g.nodes) if isinstance(n, Shape) and n.paint.kind == "solid"]
    body = []
    root_fill = ""
    for i, n in enumerate(g.nodes):
        if solid_idx and i == solid_idx[0]:
            dx, dy = 3.0, -2.0
            d = place(n.d, aff.tr(-dx, -dy), nd=4)
            s = Shape(d, n.paint, n.opacity)
            inner = s.svg()
            if n.paint.attr() != "black" and ' fill="' in inner and not any(l.paint.attr() == "black" for l in g.leaves()):
                # the shape's fill is declared on the root <svg> and inherited (as exporters often do)
                root_fill = f' fill="{n.paint.attr()}"'
                inner = inner.replace(f' fill="{n.paint.attr()}"', "", 1)
            body.append(f'<g transform="translate({_g(dx)} {_g(dy)})">{inner}</g>')
        elif len(solid_idx) > 1 and i == solid_idx[-1]:
            dx, dy = -4.0, 5.0
            d = place(n.d, aff.tr(-dx, -dy), nd=4)
            defs.append(f'<path id="rawp{i}" d="{d}"/>')
            a = f'<use xlink:href="#rawp{i}" x="{_g(dx)}" y="{_g(dy)}"'
            f = n.paint.attr()
            if f != "black":
                a += f' fill="{f}"'
            if n.opacity != 1:
                a += f' opacity="{n.opacity}"'
            body.append(a + "/>")
        else:
            body.append(n.svg())
    return (
        '<svg xmlns="http://www.w3.org/2000/svg" xmlns:xlink="http://www.w3.org/1999/xlink" '
        f'viewBox="{_g(x)} {_g(y)} {_g(w)} {_g(h)}" width="{w_attr}" height="{w_attr}" '
        f'enable-background="new 0 0 {_g(w)} {_g(h)}"{root_fill}>'
        f'<defs>{"".join(defs)}</defs>' + "".join(body) + "</svg>"
    )
