import math
I=(1.0,0.0,0.0,1.0,0.0,0.0)
def mul(m,n):
    # apply n first, then m  (m ∘ n)
    a,b,c,d,e,f=m; A,B,C,D,E,F=n
    return (a*A+c*B, b*A+d*B, a*C+c*D, b*C+d*D, a*E+c*F+e, b*E+d*F+f)
def ap(m,p):
    a,b,c,d,e,f=m; x,y=p
    return (a*x+c*y+e, b*x+d*y+f)
def det(m): return m[0]*m[3]-m[1]*m[2]
def inv(m):
    a,b,c,d,e,f=m; D=a*d-b*c
    ia,ib,ic,id_=d/D,-b/D,-c/D,a/D
    return (ia,ib,ic,id_, -(ia*e+ic*f), -(ib*e+id_*f))
def tr(dx,dy): return (1,0,0,1,dx,dy)
def sc(sx,sy=None):
    if sy is None: sy=sx
    return (sx,0,0,sy,0,0)
def rot(deg):
    r=math.radians(deg); c,s=math.cos(r),math.sin(r); return (c,s,-s,c,0,0)
def around(m,cx,cy): return mul(tr(cx,cy),mul(m,tr(-cx,-cy)))
def skew(xdeg,ydeg): return (1,math.tan(math.radians(ydeg)),math.tan(math.radians(xdeg)),1,0,0)
