"""Binding the picture oracles (DESIGN.md section 3.1). Run at the start of every picture-based
check; a failure is a broken harness (exit 2), never a verdict about the repository.
 (a) svg_eval(print(scene)) == scene-model picture           (evaluator agrees with the generator)
 (b) svg_eval agrees with resvg on flat pixels                (evaluator agrees with an independent renderer)
 (c) the COLR evaluator's transform matrices agree with fontTools' Paint.getTransform
 (d) hand-computed colours of four tiny COLR graphs
"""
import io
import os
import shutil
import subprocess
from pathlib import Path

from vmc.core import pool
from vmc.core.report import HarnessError

FG = (0.2, 0.9, 0.4, 1.0)
SCENE_DIMS = ("outline", "stack", "place", "donor_paint", "copy_paint", "lin_vec", "lin_gt", "lin_spread", "lin_stops",
              "rad_geom", "rad_gt", "rad_spread", "rad_stops", "grp", "vb_origin", "vb_size", "vb_aspect", "where", "grad_twice", "shared_grad", "twin", "vb_b", "clone")


def _scene_cases():
    from vmc.gen import scenes

    out = [{}]
    for k in SCENE_DIMS:
        for v in scenes.DIMS[k][1:]:
            d = {k: v}
            if scenes.relevant(d):
                out.append(d)
    return out


def _check_scene(dev):
    """(a) + (b) for one scene"""
    from PIL import Image
    from vmc.core import lattice
    from vmc.gen import scenes
    from vmc.oracles.svg_eval import SvgPicture
    from vmc.oracles import scene as sc

    a = lattice.full(scenes.DIMS, dev)
    glyphs, _ = scenes.mk(a)
    problems = []
    n_a = n_b = 0
    uses_fr = a["rad_geom"] == "fr" or a["copy_paint"] == "rad_focal_fr"
    for gi, g in enumerate(glyphs):
        for text, label in ((g.svg(), "picosvg"), (sc.raw_svg(g), "raw")):
            pic = SvgPicture(text, FG)
            x, y, w, h = g.vb
            G = 18
            for i in range(G):
                for j in range(G):
                    q = (x + w * (i + 0.37) / G, y + h * (j + 0.61) / G)
                    r1, r2 = g.at_vb(q, FG), pic.at_doc(q)
                    n_a += 1
                    if max(abs(u - v) for u, v in zip(r1, r2)) > 1e-6:
                        problems.append(f"(a) {dev} glyph {gi} {label} at {q}: scene {r1} vs svg_eval {r2}")
                        break
        if uses_fr or not g.leaves():
            continue  # resvg 0.44 ignores the SVG2 focal radius fr (measured)
        # (b) resvg
        tmp = Path(os.environ.get("VERIF_SCRATCH", "/var/tmp")) / f"selftest-{os.getpid()}"
        tmp.mkdir(parents=True, exist_ok=True)
        try:
            import re

            # resvg knows neither the text foreground colour nor OT-SVG palette variables: hand it the
            # marker colour and the fallback colour that the OpenType spec defines for var(--colorN, c)
            text = g.svg().replace("currentColor", "#33E666")
            text = re.sub(r"var\(--color\d+,\s*([^)]+)\)", r"\1", text)
            (tmp / "s.svg").write_text(text)
            W = 240
            r = subprocess.run(["resvg", "-w", str(W), str(tmp / "s.svg"), str(tmp / "s.png")], capture_output=True,
                               env=dict(os.environ, PATH="/venv/bin:" + os.environ.get("PATH", "")))
            if r.returncode != 0:
                problems.append(f"(b) resvg failed on {dev}: {r.stderr[-100:]}")
                continue
            im = Image.open(tmp / "s.png").convert("RGBA")
            px = im.load()
            Wp, Hp = im.size
            pic = SvgPicture(g.svg(), FG)
            x, y, w, h = g.vb
            step = 6
            for i in range(3, Wp - 3, step):
                for j in range(3, Hp - 3, step):
                    nb = [px[i + di, j + dj] for di in (-2, 0, 2) for dj in (-2, 0, 2)]
                    if max(max(c[k] for c in nb) - min(c[k] for c in nb) for k in range(4)) >= 40:
                        continue
                    q = (x + w * (i + 0.5) / Wp, y + h * (j + 0.5) / Hp)
                    c = pic.at_doc(q)  # premultiplied
                    rr, gg, bb, aa = px[i, j]
                    got = (rr / 255 * aa / 255, gg / 255 * aa / 255, bb / 255 * aa / 255, aa / 255)
                    n_b += 1
                    if max(abs(u - v) for u, v in zip(c, got)) > 14 / 255:
                        # tolerate probes whose own neighbourhood is not flat in the evaluator (thin features)
                        around = [pic.at_doc((q[0] + dx * w / Wp, q[1] + dy * h / Hp)) for dx in (-2, 2) for dy in (-2, 2)]
                        if max(max(abs(u - v) for u, v in zip(c, o)) for o in around) > 12 / 255:
                            continue
                        problems.append(f"(b) {dev} glyph {gi} pixel ({i},{j}): svg_eval {tuple(round(v, 3) for v in c)} vs resvg {tuple(round(v, 3) for v in got)}")
                        break
        finally:
            shutil.rmtree(tmp, ignore_errors=True)
    return [{"status": "ok" if not problems else "selftest-failed", "clause": "selftest", "detail": "; ".join(problems[:3]), "n": (n_a, n_b)}]


def _matrices():
    """(c): own spec formulas vs fontTools' Paint.getTransform"""
    from fontTools.ttLib.tables import otTables as ot
    from vmc.oracles.colr_eval import ColrPicture
    from vmc.props import c13, c16

    problems = []
    PF = ot.PaintFormat
    for name in c13.WRAPPERS:
        d = c13.wrap(name, {"Format": PF.PaintSolid, "PaletteIndex": 0, "Alpha": 1.0})
        font = c16._font_for(d)
        pic = ColrPicture(font)
        p = pic.base_paint("g")
        mine = pic.xform(p)
        theirs = tuple(p.getTransform())
        if any(abs(a - b) > 1e-9 for a, b in zip(mine, theirs)):
            problems.append(f"(c) {name}: oracle {mine} vs fontTools {theirs}")
    return problems


def _hand_computed():
    """(d) four tiny COLR graphs with colours computed by hand"""
    from fontTools.ttLib.tables.otTables import PaintFormat as PF
    from vmc.oracles.colr_eval import ColrPicture
    from vmc.props import c13

    solid = lambda i, a=1.0: {"Format": PF.PaintSolid, "PaletteIndex": i, "Alpha": a}
    glyph = lambda g, p: {"Format": PF.PaintGlyph, "Glyph": g, "Paint": p}
    problems = []

    def expect(colr, p, want, label):
        font = c13.make_font(colr)
        got = ColrPicture(font, FG).at("base", p)
        if max(abs(a - b) for a, b in zip(got, want)) > 2e-3:
            problems.append(f"(d) {label}: at {p} got {tuple(round(v, 4) for v in got)}, by hand {want}")

    # palette: 0 red, 1 blue, 2 green(0,.5,0), 3 yellow, 4 black ; L covers (150,150), T covers (500,300) but not (150,150)
    expect({"base": glyph("L", solid(0))}, (150, 150), (1, 0, 0, 1), "solid inside")
    expect({"base": glyph("L", solid(0))}, (400, 400), (0, 0, 0, 0), "solid outside (L's notch)")
    # blue at alpha .5 over red: premultiplied (0.5*0 + 0.5*1, 0, 0.5, 1)
    expect({"base": {"Format": PF.PaintColrLayers, "Layers": [glyph("L", solid(0)), glyph("L", solid(1, 0.5))]}}, (150, 150), (0.5, 0, 0.5, 1.0), "alpha over")
    # linear gradient red->blue from x=100 to x=500 (p2 perpendicular): at x=300 halfway
    lin = {"Format": PF.PaintLinearGradient, "ColorLine": {"ColorStop": [(0, 0), (1, 1)], "Extend": "pad"}, "x0": 100, "y0": 0, "x1": 500, "y1": 0, "x2": 100, "y2": 100}
    expect({"base": glyph("L", lin)}, (300, 200), (0.5, 0, 0.5, 1.0), "linear midpoint")
    # group opacity: (red over nothing) SRC_IN black@0.25 -> red * 0.25
    grp = {"Format": PF.PaintComposite, "CompositeMode": "src_in", "SourcePaint": glyph("L", solid(0)), "BackdropPaint": solid(4, 0.25)}
    expect({"base": grp}, (150, 150), (0.25, 0, 0, 0.25), "SRC_IN group alpha")
    # translate: L moved by (120,-80): (150,150) no longer covered from the un-moved notch side; (250,50) is
    expect({"base": c13.wrap("Translate", glyph("L", solid(0)))}, (250, 50), (1, 0, 0, 1), "translate")
    return problems


_DONE = False


def run(report):
    global _DONE
    if _DONE:
        return
    from vmc.drive import inproc

    inproc.init()
    cases = _scene_cases()
    res = pool.run_cases(_check_scene, cases, timeout=300, jobs=None, chunksize=2)
    na = nb = 0
    for c, vs in zip(cases, res):
        v = vs[0]
        if v["status"] != "ok":
            raise HarnessError(f"oracle self-test failed: {v.get('detail')}")
        na += v["n"][0]
        nb += v["n"][1]
    problems = _matrices() + _hand_computed()
    if problems:
        raise HarnessError("oracle self-test failed: " + "; ".join(problems[:3]))
    report.extra["oracle_selftest"] = {"scenes": len(cases), "scene_vs_svg_eval_probes": na, "svg_eval_vs_resvg_pixels": nb,
                                       "transform_paints_vs_fontTools": 10, "hand_computed_colr_cases": 6}
    _DONE = True
