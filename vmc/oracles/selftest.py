def run(report):
    pass
