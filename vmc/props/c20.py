"""C20 - Every configuration option reaches the font it configures (real CLI)."""
import hashlib
import itertools
import shutil
from pathlib import Path

from vmc.core import listing
from vmc.core.listing import ok, bad

# field -> (v1, v2, base overrides the observable needs)
VECTOR = {"color_format": "glyf_colr_1"}
BITMAP = {"color_format": "cbdt"}
FIELDS = {
    "family": ("Fam One", "Zweite Fam", VECTOR),
    "version_major": (2, 7, VECTOR),
    "version_minor": (5, 280, VECTOR),
    "upem": (1000, 2048, VECTOR),
    "ascender": (800, 1100, VECTOR),
    "descender": (-100, -300, VECTOR),
    "linegap": (50, 120, VECTOR),
    "width": (0, 3000, VECTOR),
    "color_format": ("picosvg", "glyf_colr_0", {}),
    "output_file": ("Out One.ttf", "other.otf", {"color_format": "cff_colr_1"}),
    "keep_glyph_names": (True, False, VECTOR),
    "clipbox_quantization": (7, 100, VECTOR),
    "bitmap_resolution": (32, 64, BITMAP),
    "glyphmap_generator": ("vmcglyphmap", "nanoemoji.write_glyphmap", dict(VECTOR, keep_glyph_names=True)),
    "transform": ("translate(0, -50)", "rotate(10)", VECTOR),
    "reuse_tolerance": (-1, 0.5, VECTOR),
    "clip_to_viewbox": (False, True, VECTOR),
    "pretty_print": (True, False, {"color_format": "picosvg"}),
    "use_pngquant": (False, True, BITMAP),
    "use_zopflipng": (False, True, BITMAP),
    "pngquant_flags": ("--quality 1-5 --speed 11", "--speed 1 --skip-if-larger --quality 85-95", BITMAP),
}
UNOBSERVED = {"fea_file": "round-tripped (C10) but the CLI always passes its generated <output>.fea to the worker; the statement names the feature *generator*",
              "ignore_reuse_error": "no observable named in the statement",
              "axes": "C18", "masters": "C18", "source_names": "derived"}
DEFAULTS = {"family": "An Emoji Family", "version_major": 1, "version_minor": 0, "upem": 1024, "ascender": 950, "descender": -250, "linegap": 0,
            "width": 1275, "color_format": "glyf_colr_1", "output_file": "AnEmojiFamily.ttf", "keep_glyph_names": False, "clipbox_quantization": None,
            "bitmap_resolution": 128, "glyphmap_generator": "nanoemoji.write_glyphmap", "transform": "", "reuse_tolerance": 0.1,
            "clip_to_viewbox": True, "pretty_print": False, "use_pngquant": True, "use_zopflipng": True,
            "pngquant_flags": "--speed 1 --skip-if-larger --quality 85-95"}


def sources(stick=False):
    """the base scene (glyph B a two-codepoint sequence); with stick=True glyph A also has a
    shape sticking out of the viewBox"""
    from vmc.core import lattice
    from vmc.gen import scenes
    from vmc.oracles.scene import Shape, Solid, place, OUT
    from vmc.oracles import aff

    glyphs, _ = scenes.mk(lattice.full(scenes.DIMS, {"seqlen": 2}))
    if stick:
        glyphs[0].nodes.append(Shape(place(OUT["tri"], aff.tr(80, 70)), Solid("purple"), label="sticks-out"))
    return glyphs


def toml_text(cfg, srcs):
    import toml

    d = {k: v for k, v in cfg.items() if v is not None}
    d["axis"] = {"wght": {"name": "Weight", "default": 400}}
    d["master"] = {"regular": {"style_name": "Regular", "position": {"wght": 400}, "srcs": [str(s) for s in srcs]}}
    return toml.dumps(d)


def observe(field, font, bdir, out_path, cfg, glyphs):
    """-> the value of the field's observable, read from the emitted font / build directory"""
    from vmc.props import common
    from vmc.oracles import shaper

    name = font["name"]
    if field == "family":
        return (name.getDebugName(1), name.getDebugName(4), name.getDebugName(6))
    if field in ("version_major", "version_minor"):
        rev = round(font["head"].fontRevision, 3)
        return (int(rev) if field == "version_major" else round((rev - int(rev)) * 1000), name.getDebugName(5))
    if field == "upem":
        return font["head"].unitsPerEm
    if field == "ascender":
        return (font["hhea"].ascent, font["OS/2"].sTypoAscender, bool(font["OS/2"].fsSelection & (1 << 7)))
    if field == "descender":
        return (font["hhea"].descent, font["OS/2"].sTypoDescender)
    if field == "linegap":
        return (font["hhea"].lineGap, font["OS/2"].sTypoLineGap)
    if field == "width":
        return font["hmtx"][font.getBestCmap()[0xE000]][0]
    if field == "color_format":
        return tuple(sorted(t.strip() for t in font.keys() if t.strip() in ("COLR", "SVG", "CBDT", "CBLC", "sbix", "glyf", "CFF", "CFF2"))) + \
            ((font["COLR"].version,) if "COLR" in font else ())
    if field == "output_file":
        return (out_path.name, "glyf" in font)
    if field == "keep_glyph_names":
        return font["post"].formatType
    if field == "clipbox_quantization":
        clips = font["COLR"].table.ClipList.clips
        edges = [v for c in clips.values() for v in (c.xMin, c.yMin, c.xMax, c.yMax)]
        return edges
    if field == "bitmap_resolution":
        return [s.bitmapSizeTable.ppemX for s in font["CBLC"].strikes]
    if field == "glyphmap_generator":
        return sorted(g for g in font.getGlyphOrder() if g.startswith("custom_"))
    if field == "transform":
        vs = common.colr_checks("C20", glyphs, cfg, font, G=16)
        return [v["detail"][:200] for v in vs if v["status"] == "violation"]
    if field == "reuse_tolerance":
        return len(font.getGlyphOrder())
    if field == "clip_to_viewbox":
        from vmc.oracles import flatten, paths

        g = font.getBestCmap()[0xE000]
        xs = [paths.bounds(l.poly())[2] for l in flatten.colr_leaves(font, g, common.FG)]
        return round(max(xs))
    if field == "pretty_print":
        return any("\n" in d[0].strip() for d in common.svg_docs(font))
    if field in ("use_pngquant", "use_zopflipng", "pngquant_flags"):
        g = font.getBestCmap()[0xE000]
        data = bytes(font["CBDT"].strikeData[0][g].imageData)
        stages = {}
        for st in ("bitmap", "pngquant", "zopflipng"):
            f = list((bdir / st).glob("*e000*.png")) if (bdir / st).exists() else []
            stages[st] = hashlib.sha256(f[0].read_bytes()).hexdigest()[:10] if f else None
        emb = hashlib.sha256(data).hexdigest()[:10]
        which = [k for k, v in stages.items() if v == emb]
        return (which[-1] if which else "none", sorted(k for k, v in stages.items() if v))
    raise KeyError(field)


def expected(field, value, base, glyphs, bdir=None):
    em = lambda c: c["ascender"] - c["descender"]
    c = dict(DEFAULTS)
    c.update(base)
    c[field] = value
    if field == "family":  # family name, full name, PostScript name (style Regular)
        return (value, value + " Regular", value.replace(" ", "") + "-Regular")
    if field in ("version_major", "version_minor"):
        return (value, "Version %d.%03d" % (c["version_major"], c["version_minor"]))
    if field == "upem":
        return value
    if field == "ascender":
        return (value, value, True)
    if field in ("descender", "linegap"):
        return (value, value)
    if field == "width":
        return max(value, em(c))
    if field == "color_format":
        return {"picosvg": ("SVG", "glyf"), "glyf_colr_0": ("COLR", "glyf", 0), "glyf_colr_1": ("COLR", "glyf", 1), "cbdt": ("CBDT", "CBLC", "glyf")}[value]
    if field == "output_file":
        return (Path(value).name, value.endswith(".ttf"))
    if field == "keep_glyph_names":
        return 2 if value else 3
    if field == "clipbox_quantization":
        return ("multiples-of", value if value is not None else round(0.02 * c["upem"]))
    if field == "bitmap_resolution":
        return [round(c["upem"] * value / em(c))]
    if field == "glyphmap_generator":
        return ("custom" if value == "vmcglyphmap" else "standard",)
    if field == "transform":
        return []
    if field == "reuse_tolerance":
        return ("glyphs", value)
    if field == "clip_to_viewbox":
        return ("clipped", value)
    if field == "pretty_print":
        return value
    if field in ("use_pngquant", "use_zopflipng", "pngquant_flags"):
        stages = ["bitmap"] + (["pngquant"] if c["use_pngquant"] else []) + (["zopflipng"] if c["use_zopflipng"] else [])
        return (stages[-1], sorted(stages))
    raise KeyError(field)


def matches(field, exp, got, cfg):
    if field == "clipbox_quantization":
        step = exp[1]
        return all(v % step == 0 for v in got) and bool(got)
    if field == "glyphmap_generator":
        return bool(got) == (exp[0] == "custom")
    if field == "reuse_tolerance":
        # base scene: glyph B holds a copy of a shape of glyph A -> one glyph fewer with reuse
        # .notdef, space, 2 colour glyphs, 2 blanks for the sequence-only codepoints, one outline
        # glyph per source shape; the copy in glyph B shares the donor's outline when reuse is on
        n = 6 + sum(len(g.leaves()) for g in sources())
        return got == (n if exp[1] == -1 else n - 1)
    if field == "clip_to_viewbox":
        em = cfg.ascender - cfg.descender
        adv_right = (1275 + em) / 2  # right edge of the viewBox in font space (square viewBox centred in 1275)
        return (got <= adv_right + 2) if exp[1] else (got > adv_right + 20)
    if field == "color_format":
        return tuple(sorted(map(str, exp))) == tuple(sorted(map(str, got)))
    return exp == got


def run_cli(workdir, cfgs, flags, srcs_text, extra_env=None, rewrite=True):
    """cfgs: list of dicts (one TOML each); returns (returncode, stderr, {output_file: path}); rewrite=False: a second invocation
    over the files the first one left (sources and TOMLs are not touched)"""
    from vmc.drive import cli

    files = cli.write_sources(workdir / "src", srcs_text) if rewrite else [workdir / "src" / n for n, _ in srcs_text]
    args = []
    for i, c in enumerate(cfgs):
        t = workdir / f"cfg{i}.toml"
        if rewrite:
            t.write_text(toml_text(c, files))
        args.append(t)
    if not cfgs:
        args += files
    env = {"PYTHONPATH": "/verif/assets"}
    env.update(extra_env or {})
    r = cli.nanoemoji(workdir, flags + args, extra_env=env)
    return r


def exec_field(case):
    from fontTools.ttLib import TTFont
    from vmc.drive import cli, inproc

    field, mode = case["field"], case["mode"]
    v1, v2, base = FIELDS[field]
    if case.get("base") == "bitmap":  # the same option in a bitmap build (its observable is the same; nothing else may move)
        base = dict(BITMAP)
    elif case.get("base"):  # ... or under another outline flavour, e.g. {"color_format": "cff2_colr_1", "output_file": "Out.otf"}
        base = dict(case["base"])
    glyphs = sources(stick=field == "clip_to_viewbox")
    srcs_text = [(f"emoji_u{'_'.join('%04x' % c for c in g.cps)}.svg", g.svg()) for g in glyphs]
    file_cfg = dict(base)
    flags = []
    if mode == "flag":
        flags = cli.flags_for({field: v1})
        want = v1
    elif mode == "file":
        file_cfg[field] = v1
        want = v1
    elif mode in ("both", "rerun"):
        file_cfg[field] = v1
        flags = cli.flags_for({field: v2})
        want = v2
    else:  # omitted
        want = DEFAULTS[field]
        file_cfg.pop(field, None)
    eff = dict(DEFAULTS)
    eff.update(base)
    eff[field] = want
    w = cli.mkscratch("c20")
    try:
        if mode == "rerun":
            # a first invocation with the TOML alone, then -- same directory, same untouched TOML -- one that adds the flag: the
            # font of the second invocation is the font of its options, whatever an earlier invocation left behind
            r0 = run_cli(w, [file_cfg], [], srcs_text)
            if r0.returncode != 0:
                return [bad("C20.build", f"{field} rerun: first invocation exits {r0.returncode}: {(r0.stderr or '')[-300:]}")]
            r = run_cli(w, [file_cfg], flags, srcs_text, rewrite=False)
        else:
            r = run_cli(w, [file_cfg], flags, srcs_text)
        out = w / "build" / eff["output_file"]
        if r.returncode != 0 or not out.exists():
            return [bad("C20.build", f"{field} {mode}: exit {r.returncode}, {out.name} {'missing' if not out.exists() else ''}: {(r.stderr or '')[-300:]}")]
        font = TTFont(out)
        cfg = inproc.base_config(**{k: v for k, v in eff.items() if k not in ("glyphmap_generator",)})
        got = observe(field, font, w / "build", out, cfg, glyphs)
        exp = expected(field, want, base, glyphs)
        if not matches(field, exp, got, cfg):
            return [bad("C20.option-reaches-font", f"{field} given by {mode} (value {want!r}): observable is {got!r}, expected {exp!r}")]
        if "CBLC" in font and field != "bitmap_resolution":
            # an option that is not the strike size leaves the strike size alone: ppem = round(upem x bitmap height / em height)
            want_ppem = round(eff["upem"] * eff["bitmap_resolution"] / (eff["ascender"] - eff["descender"]))
            ppems = [s_.bitmapSizeTable.ppemX for s_ in font["CBLC"].strikes]
            if ppems != [want_ppem]:
                return [bad("C20.option-reaches-font", f"{field} given by {mode} (value {want!r}) in a cbdt build: strike ppem {ppems}, expected [{want_ppem}] "
                            f"(upem {eff['upem']}, bitmap height {eff['bitmap_resolution']}, em height {eff['ascender'] - eff['descender']})")]
        if field == "upem" and "COLR" in font and font["COLR"].version == 1:
            # clipbox_quantization is not given: its documented default is 2% of *this* upem (the C05 reference: round(0.02 * upem))
            step = round(0.02 * want)
            edges = observe("clipbox_quantization", font, w / "build", out, cfg, glyphs)
            if not edges or any(v % step for v in edges):
                return [bad("C20.option-reaches-font", f"upem={want} given by {mode}, clipbox_quantization omitted: clip box edges {edges} are not multiples of round(0.02*upem) = {step}")]
        return [ok("C20.option", f"{field}:{mode}")]
    finally:
        shutil.rmtree(w, ignore_errors=True)


CONFIGS = {
    "base": {"color_format": "glyf_colr_1"},
    "noclip": {"color_format": "glyf_colr_1", "clip_to_viewbox": False},
    "noreuse": {"color_format": "glyf_colr_1", "reuse_tolerance": -1},
    "metrics": {"color_format": "glyf_colr_1", "upem": 1000, "ascender": 800, "descender": -200, "width": 1000},
    "picosvg": {"color_format": "picosvg"},
    "cbdt": {"color_format": "cbdt"},
    "cbdt32": {"color_format": "cbdt", "bitmap_resolution": 32},
    "cbdt64": {"color_format": "cbdt", "bitmap_resolution": 64},
    "cbdt_noquant": {"color_format": "cbdt", "use_pngquant": False},
    "cbdt_nozopfli": {"color_format": "cbdt", "use_zopflipng": False},
    "cbdt_flags": {"color_format": "cbdt", "pngquant_flags": "--quality 1-5 --speed 11"},
}


def _build_configs(names):
    from vmc.drive import cli

    glyphs = sources(stick=True)  # a shape sticks out of the viewBox: clip_to_viewbox is observable in every font of a pair
    srcs_text = [(f"emoji_u{'_'.join('%04x' % c for c in g.cps)}.svg", g.svg()) for g in glyphs]
    # output names with an extra dot that share the part before the first dot (Font.base.ttf, Font.noclip.ttf, ...): every
    # per-configuration intermediate has to be named after the *whole* stem
    cfgs = [dict(CONFIGS[n], output_file=f"Font.{n}.ttf") for n in names]
    w = cli.mkscratch("c20p")
    try:
        r = run_cli(w, cfgs, [], srcs_text)
        out = {}
        for n in names:
            f = w / "build" / f"Font.{n}.ttf"
            out[n] = hashlib.sha256(f.read_bytes()).hexdigest() if f.exists() else None
        return r.returncode, (r.stderr or "")[-300:], out
    finally:
        shutil.rmtree(w, ignore_errors=True)


def exec_pair(case):
    a, b = case["pair"]
    if a == b:
        rc, err, out = _build_configs([a])
        if rc != 0 or out[a] is None:
            return [bad("C20.single-config-builds", f"{a}: exit {rc}: {err}")]
        return [dict(ok("C20.single", f"single:{a}"), sha=out[a])]
    rc, err, out = _build_configs([a, b])
    vs = []
    if rc != 0 or None in out.values():
        sig = None
        if CONFIGS[a].get("clip_to_viewbox", True) != CONFIGS[b].get("clip_to_viewbox", True):
            wh = lambda c: c.get("ascender", 950) - c.get("descender", -250)
            if CONFIGS[a].get("reuse_tolerance", 0.1) != CONFIGS[b].get("reuse_tolerance", 0.1) or wh(CONFIGS[a]) != wh(CONFIGS[b]):
                sig = "shared-parts-file"
            else:
                sig = "shared-picosvg"
        return [bad("C20.multi-config-builds", f"nanoemoji {a}.toml {b}.toml exits {rc}: {err}", sig=sig)]
    return [dict(ok("C20.pair", f"pair:{a[:4]}+{b[:4]}"), shas=out)]


def execute(case):
    if case["kind"] == "field":
        return exec_field(case)
    return exec_pair(case)


def replay(case):
    if case.get("kind") == "pair" and case["pair"][0] != case["pair"][1]:
        vs = exec_pair(case)
        if not vs or "shas" not in vs[0]:
            return vs
        out = []
        for n, sha in vs[0]["shas"].items():
            alone = exec_pair({"kind": "pair", "pair": [n, n]})
            if alone and alone[0].get("sha") and alone[0]["sha"] != sha:
                out.append(bad("C20.each-font-as-alone", f"{n}.ttf built together with {[x for x in case['pair'] if x != n][0]} differs from {n}.ttf built alone"))
        return out or [ok("C20.pair")]
    if case.get("kind") == "meta":
        return [bad("C20.field-without-observable", str(case))]
    return execute(case)


def run(report, tier, only=None):
    from vmc.drive import inproc, conformance

    inproc.init()
    from nanoemoji import config

    missing = [f for f in config.FontConfig._fields if f not in FIELDS and f not in UNOBSERVED]
    if missing:
        report.add_violation("C20.field-without-observable", {"kind": "meta", "fields": missing}, f"FontConfig fields without an observable: {missing}")
    if only in (None, "conf"):
        conformance.run(report, tier)
    if only in (None, "fields"):
        cases = [{"kind": "field", "field": f, "mode": m} for f in FIELDS for m in ("flag", "file", "both", "omitted", "rerun")]
        # the metric options once more in a bitmap build
        # keep_glyph_names reaches `post` in every outline flavour (CFF 1 keeps names in its own charset whatever the option says and is left out; CFF2 and glyf rely on post)
        cases += [{"kind": "field", "field": "keep_glyph_names", "mode": m, "base": {"color_format": f, "output_file": "Out.otf"}}
                  for f in ("cff2_colr_1", "cff2_colr_0") for m in ("flag", "both", "omitted")]
        cases += [{"kind": "field", "field": f, "mode": m, "base": "bitmap"} for f in ("linegap", "upem", "ascender", "descender", "family") for m in ("flag", "both")]
        listing.run(report, cases, execute, timeout=600, jobs=6)
    if only in (None, "pairs"):
        names = list(CONFIGS)
        singles = [{"kind": "pair", "pair": [n, n]} for n in names]
        if tier == "quick":
            vec = [n for n in names if not n.startswith("cbdt")]
            bm = [n for n in names if n.startswith("cbdt")]
            pairs = list(itertools.permutations(vec, 2)) + list(itertools.combinations(bm, 2)) + [("base", "cbdt"), ("cbdt32", "picosvg")]
        else:
            pairs = list(itertools.permutations(names, 2))
        cases = singles + [{"kind": "pair", "pair": list(p)} for p in pairs]
        res = listing.run(report, cases, execute, timeout=900, jobs=5)
        alone = {}
        for c, vs in zip(cases, res):
            if c["pair"][0] == c["pair"][1] and vs and "sha" in vs[0]:
                alone[c["pair"][0]] = vs[0]["sha"]
        for c, vs in zip(cases, res):
            if c["pair"][0] != c["pair"][1] and vs and "shas" in vs[0]:
                for n, sha in vs[0]["shas"].items():
                    if n in alone and sha != alone[n]:
                        other = [x for x in c["pair"] if x != n][0]
                        sig = None
                        keys = {k for k in ("bitmap_resolution", "use_pngquant", "use_zopflipng", "pngquant_flags") if CONFIGS[n].get(k) != CONFIGS[other].get(k)}
                        if CONFIGS[n]["color_format"] == "cbdt" == CONFIGS[other]["color_format"] and keys:
                            sig = "shared-bitmap:" + ",".join(sorted(keys))
                        report.add_violation("C20.each-font-as-alone", c, f"{n}.ttf built together with {other} differs from {n}.ttf built alone", sig)
    report.rule = (
        "every FontConfig field with an observable (meta-check: none without) x {flag, file, both with different values, omitted} on the real CLI, the "
        "observable read from the emitted font / build directory; then pairs of configurations sharing source files built in one invocation "
        "(quick: vector x vector ordered, bitmap x bitmap unordered; thorough: all ordered pairs of 11 configurations), each font compared byte for "
        "byte with the font its configuration produces alone; distinct = field:mode / pair"
    )
