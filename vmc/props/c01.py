"""C01 - COLRv1 glyph paints the same picture as its source SVG (E1 lattice on real code)."""
from vmc.core import lattice
from vmc.core.listing import ok, bad
from vmc.gen import scenes
from vmc.props import common

DIMS = scenes.DIMS
K = {"quick": 2, "thorough": 2}
# thorough: every state with <= 2 deviations over all dimensions, plus every state with 3 deviations over the dimensions that
# meet in the code under test (the full level-3 lattice, ~350 000 states, is available with `--only 3` and was run once: DESIGN 10)
CORE3 = ("user", "tol", "fmt", "outline", "stack", "place", "donor_paint", "copy_paint", "twin", "shared_grad", "grad_twice", "vb_b", "grp",
         "nglyphs", "where", "vb_aspect", "width", "lin_vec", "rad_geom", "pretty")


def execute(dev):
    from vmc.drive import inproc

    dev = {k: v for k, v in dev.items() if k != "_"}
    a = lattice.full(DIMS, dev)
    glyphs, over = scenes.mk(a)
    cfg = inproc.base_config(**over)
    try:
        cfg, font, data = inproc.build_direct([(g.cps, g.svg()) for g in glyphs], over)
    except Exception as e:
        kind = type(e).__name__
        if kind in common.ACCEPTED_ERRORS and common.error_predicted(glyphs, cfg):
            return [{"status": "rejected", "clause": "C01.build", "fp": "rejected:" + kind}]
        import traceback
        return [bad("C01.build", f"{kind}: {e} :: {traceback.format_exc()[-400:]}", fp="exc:" + kind)]
    vs = common.colr_checks("C01", glyphs, cfg, font)
    fp = common.graph_fingerprint(font)
    for v in vs:
        if v["status"] == "ok":
            v["fp"] = fp
    return vs


def run(report, tier, only=None):
    from vmc.oracles import selftest

    selftest.run(report)
    k = int(only) if only and only.isdigit() else K[tier]
    deep = 3 if tier == "thorough" and not (only and only.isdigit()) else None
    devs, results = lattice.explore(report, DIMS, k, execute, relevant=scenes.relevant, timeout=300, deep_dims=CORE3, deep_k=deep)
    report.extra["deep_sublattice"] = {"dims": [d for d in DIMS if d in CORE3], "bound": deep} if deep else None
    probes = {"valid": 0, "skipped": 0, "bad": 0, "inconclusive_layers": 0}
    for r in results:
        for v in r:
            for kk, n in v.get("stats", {}).items():
                probes[kk] += n
    report.extra["probes"] = probes
    report.extra["deviation_bound"] = k
    deep_note = " (plus every assignment with 3 non-default dimensions among the %d core dimensions listed in the evidence)" % len([d for d in DIMS if d in CORE3]) if deep else ""
    report.rule = (
        "E1: every assignment with <= %d non-default dimensions{DEEP} of the %d-dimension scene/config lattice "
        "(vmc/gen/scenes.py) is compiled with write_font._generate_color_font, saved, reloaded; the glyph "
        "O-SHAPE reaches is evaluated with the COLRv1 point semantics and compared with the scene-model "
        "picture on a 24x24 lattice plus 7x7 witnesses per source layer; distinct = paint-format set of "
        "the emitted graph / error class" % (k, len(DIMS))
    ).replace("{DEEP}", deep_note)
    report.assumptions += [
        "fontTools decompiles COLR/CPAL/glyf/CFF correctly; skia-pathops Path.contains is correct",
        "continuous domains (coordinates, matrices, colours) are covered at the alphabet points only",
        "differences below the tolerance the property grants (2 units x placing scale + reuse tolerance; 4/255 colour) are invisible",
    ]
