"""C11 - Reordering glyphs leaves every table's meaning intact.
E5: BFS over the Cayley graph of glyph orders (generators = adjacent transpositions of the
non-.notdef glyphs, applied to the already reordered font)."""
import io
import itertools
import logging

from vmc.core import pool
from vmc.core.listing import ok, bad
from vmc.core.report import HarnessError, canon
from vmc.oracles import facts


class _Cap(logging.Handler):
    def __init__(self):
        super().__init__()
        self.msgs = []

    def emit(self, r):
        self.msgs.append(r.getMessage())


_RAW = []


def _install_raw_probe():
    """records, for every Coverage read from a binary, whether its glyph ids are strictly
    increasing (format 1) / its ranges sorted with consecutive start indices (format 2)"""
    from fontTools.ttLib.tables import otTables as ot

    if getattr(ot.Coverage, "_vmc_probe", False):
        return
    orig = ot.Coverage.postRead

    def postRead(self, rawTable, font):
        try:
            if self.Format == 1:
                ids = [font.getGlyphID(g) for g in rawTable["GlyphArray"]]
                if any(b <= a for a, b in zip(ids, ids[1:])):
                    _RAW.append(f"format 1 glyph ids {ids}")
            elif self.Format == 2:
                prev_end, nxt = -1, 0
                for r in rawTable["RangeRecord"]:
                    s, e = font.getGlyphID(r.Start), font.getGlyphID(r.End)
                    if s <= prev_end or e < s or r.StartCoverageIndex != nxt:
                        _RAW.append(f"format 2 range {s}..{e} idx {r.StartCoverageIndex} after end {prev_end}")
                    nxt += e - s + 1
                    prev_end = e
        except Exception as e:  # a probe must never change behaviour
            _RAW.append(f"probe error {e}")
        return orig(self, rawTable, font)

    ot.Coverage.postRead = postRead
    ot.Coverage._vmc_probe = True


def _pairsets_unsorted(font):
    """PairPos format 1: the records of a PairSet must be ordered by the glyph id of the second glyph (consumers search them)"""
    out = []
    if "GPOS" in font and font["GPOS"].table.LookupList:
        for li, lk in enumerate(font["GPOS"].table.LookupList.Lookup):
            for st in lk.SubTable:
                st = getattr(st, "ExtSubTable", st)
                if type(st).__name__ == "PairPos" and st.Format == 1:
                    for ps in st.PairSet:
                        ids = [font.getGlyphID(r.SecondGlyph) for r in ps.PairValueRecord]
                        if any(b <= a for a, b in zip(ids, ids[1:])):
                            out.append(f"GPOS lookup {li}: a PairSet lists second glyph ids {ids}")
    return out


def source_font(which):
    if which == "layout":
        from vmc.gen import layoutfont

        return layoutfont.make()
    if which == "layout-dup":
        from vmc.gen import layoutfont

        return layoutfont.make(dup=True)
    # a real nanoemoji COLRv1 font with GSUB (sequence) and reuse
    from vmc.core import lattice
    from vmc.drive import inproc
    from vmc.gen import scenes

    glyphs, over = scenes.mk(lattice.full(scenes.DIMS, {"seqlen": 3, "nglyphs": 3}))
    over["keep_glyph_names"] = True
    cfg, font, data = inproc.build_direct([(g.cps, g.svg()) for g in glyphs], over)
    return data


def load_facts(data):
    from fontTools.ttLib import TTFont

    _install_raw_probe()
    del _RAW[:]
    cap = _Cap()
    lg = logging.getLogger("fontTools")
    lg.addHandler(cap)
    try:
        f = TTFont(io.BytesIO(data), lazy=False)
        f.ensureDecompiled()
        fa = facts.all_facts(f)
    finally:
        lg.removeHandler(cap)
    warn = [m for m in cap.msgs if "not sorted" in m]
    return f, fa, list(_RAW), warn


def step(case):
    """one transition: reorder the already reordered font (bytes) to the next order"""
    from fontTools.ttLib import TTFont
    from nanoemoji.reorder_glyphs import reorder_glyphs
    from nanoemoji.util import load_fully

    data = bytes.fromhex(case["data"]) if isinstance(case["data"], str) else case["data"]
    font = load_fully(TTFont(io.BytesIO(data)))
    try:
        if case.get("via"):  # two calls on the same loaded font object, no save / reload in between
            reorder_glyphs(font, list(case["via"]))
        reorder_glyphs(font, list(case["order"]))
        b = io.BytesIO()
        font.save(b)
    except Exception as e:
        import traceback
        return [bad("C11.reorder-succeeds", f"{case['order']}: {type(e).__name__}: {e} :: {traceback.format_exc()[-300:]}")], None
    out = b.getvalue()
    try:
        f2, fa, raw, warn = load_facts(out)
    except facts.FactError as e:
        return [bad("C11.parallel-arrays", f"{case['order']}: {e}")], out
    vs = []
    if f2.getGlyphOrder() != list(case["order"]):
        vs.append(bad("C11.order-applied", f"glyph order is {f2.getGlyphOrder()}, requested {case['order']}"))
    d = facts.diff(case["ref"], fa)
    if d:
        vs.append(bad("C11.meaning-unchanged", f"order {case['order']}: name-keyed facts differ in {d}"))
    if raw:
        vs.append(bad("C11.coverage-sorted", f"order {case['order']}: {raw[:3]}"))
    if warn:
        vs.append(bad("C11.coverage-sorted", f"order {case['order']}: fontTools warns: {warn[:1]}"))
    ps = _pairsets_unsorted(f2)
    if ps:
        vs.append(bad("C11.pairset-sorted", f"order {case['order']}: {ps[0]}"))
    if not vs:
        vs.append(ok("C11.state", None))
    return vs, out


def _step_pool(case):
    vs, out = step(case)
    return [dict(v, _data=out) if i == 0 else v for i, v in enumerate(vs)]


def execute(case):
    """replay: rebuild the source font, walk the recorded path of orders"""
    data = source_font(case["font"])
    _, ref, _, _ = load_facts(data)
    vs = []
    for order in case["path"]:
        vs, data = step({"data": data, "order": order, "ref": ref, "via": case.get("via")})
        if data is None or any(v["status"] == "violation" for v in vs):
            return vs
    return vs


def bfs(report, which, n_movable):
    data0 = source_font(which)
    f0, ref, raw0, warn0 = load_facts(data0)
    if raw0 or warn0:
        raise HarnessError(f"the source font '{which}' itself has unsorted coverage: {raw0[:2]} {warn0[:1]}")
    order0 = f0.getGlyphOrder()
    fixed = order0[: len(order0) - n_movable] if not which.startswith("layout") else [order0[0]]
    movable = [g for g in order0 if g not in fixed]
    if which.startswith("layout"):
        movable = movable[:n_movable]
        fixed = [g for g in order0 if g not in movable]
    # keep .notdef first, fixed glyphs in place at the front
    start = tuple(movable)
    seen = {start: (data0, [])}
    frontier = [start]
    transitions = 0
    fps = set()
    while frontier:
        cases = []
        for st in frontier:
            data, path = seen[st]
            for i in range(len(st) - 1):
                nxt = list(st)
                nxt[i], nxt[i + 1] = nxt[i + 1], nxt[i]
                order = fixed + nxt
                cases.append({"data": data, "order": order, "ref": ref, "_from": st, "_to": tuple(nxt), "_path": path})
        results = pool.run_cases(_step_pool, cases, timeout=300, seed=report.seed)
        nxt_frontier = []
        for c, vs in zip(cases, results):
            transitions += 1
            for v in vs:
                if v["status"] == "harness-error":
                    raise HarnessError(v["detail"])
                report.status[v["status"]] += 1
                if v["status"] == "violation":
                    report.add_violation(v["clause"], {"kind": "path", "font": which, "path": c["_path"] + [c["order"]]}, v["detail"],
                                         sig=f"{which}:{v['clause']}:{v['detail'].split(':')[-1][:80] if 'differ in' in v['detail'] else ''}")
            out = vs[0].get("_data") if vs else None
            if out is None:
                continue
            if c["_to"] not in seen:
                seen[c["_to"]] = (out, c["_path"] + [c["order"]])
                nxt_frontier.append(c["_to"])
            else:
                # differential: the same order reached along another path must be the same font
                if seen[c["_to"]][0] != out:
                    fps.add("path-dependent-bytes")
        frontier = nxt_frontier
    # one-shot permutations: a single reorder_glyphs call may apply *any* permutation, not only a
    # transposition -- from the initial font and from one non-initial state to every order
    bases = [(start, data0), (tuple(reversed(start)), seen[tuple(reversed(start))][0])] if tuple(reversed(start)) in seen else [(start, data0)]
    cases = []
    for base_order, base_data in bases:
        for perm in itertools.permutations(start):
            if perm == base_order:
                continue
            cases.append({"data": base_data, "order": fixed + list(perm), "ref": ref, "_base": fixed + list(base_order)})
    results = pool.run_cases(_step_pool, cases, timeout=300, seed=report.seed)
    for c, vs in zip(cases, results):
        transitions += 1
        for v in vs:
            if v["status"] == "harness-error":
                raise HarnessError(v["detail"])
            report.status[v["status"]] += 1
            if v["status"] == "violation":
                path = ([c["_base"]] if c["_base"] != fixed + list(start) else []) + [c["order"]]
                report.add_violation(v["clause"], {"kind": "path", "font": which, "path": path}, v["detail"],
                                     sig=f"{which}:{v['clause']}:{v['detail'].split(':')[-1][:80] if 'differ in' in v['detail'] else ''}")
        out = vs[0].get("_data") if vs else None
        if out is not None and tuple(c["order"][len(fixed):]) in seen and seen[tuple(c["order"][len(fixed):])][0] != out:
            fps.add("path-dependent-bytes")
    # two reorders in a row on one loaded font (no save / reload in between): via the reversed order to every order
    cases2 = [{"data": data0, "via": fixed + list(reversed(start)), "order": fixed + list(perm), "ref": ref} for perm in itertools.permutations(start)]
    results2 = pool.run_cases(_step_pool, cases2, timeout=300, seed=report.seed)
    for c, vs in zip(cases2, results2):
        transitions += 1
        for v in vs:
            if v["status"] == "harness-error":
                raise HarnessError(v["detail"])
            report.status[v["status"]] += 1
            if v["status"] == "violation":
                report.add_violation(v["clause"], {"kind": "path", "font": which, "path": [c["order"]], "via": c["via"]}, v["detail"],
                                     sig=f"{which}:two-calls:{v['clause']}")
    report.extra["two_call_permutations"] = report.extra.get("two_call_permutations", 0) + len(cases2)
    report.extra.setdefault("one_shot_permutations", 0)
    report.extra["one_shot_permutations"] += len(cases)
    report.states += len(seen)
    report.transitions += transitions
    report.executions += transitions
    report.evaluations += transitions
    report.fps[f"{which}:orders"] += len(seen)
    for k in fps:
        report.fps[k] += 1
    report.sample({"kind": "path", "font": which, "path": [fixed + list(next(iter(seen)))]})
    return len(seen), transitions


def argument_errors(report):
    from fontTools.ttLib import TTFont
    from nanoemoji.reorder_glyphs import reorder_glyphs
    from nanoemoji.util import load_fully

    data = source_font("layout")
    for label, mk in (("wrong length", lambda o: o[:-1]), ("different set", lambda o: o[:-1] + ["zzz"]), ("duplicate", lambda o: o[:-1] + [o[1]])):
        font = load_fully(TTFont(io.BytesIO(data)))
        try:
            reorder_glyphs(font, mk(font.getGlyphOrder()))
            report.add_violation("C11.argument-errors-raise", {"kind": "arg", "what": label}, f"reorder_glyphs accepts a new order with {label}")
        except ValueError:
            report.fps["arg-error:" + label] += 1
        report.evaluations += 1


def run(report, tier, only=None):
    from vmc.drive import inproc

    inproc.init()
    n = 6
    s1, t1 = bfs(report, "layout", n)
    s2, t2 = bfs(report, "nanoemoji", 5)
    s3, t3 = bfs(report, "layout-dup", n)
    report.extra["layout_dup_font_orders"] = s3
    argument_errors(report)
    report.extra["layout_font_orders"] = s1
    report.extra["nanoemoji_font_orders"] = s2
    report.rule = (
        "E5: breadth-first search over all orders of the movable glyphs (quick 5! = 120, thorough 6! = 720) of a font carrying one lookup of every "
        "GSUB/GPOS type+format and every glyph-keyed GDEF structure; each transition calls the real reorder_glyphs on the already reordered font, saves, "
        "reloads; in every state the name-keyed facts (cmap, hmtx, outlines, COLR, every lookup zipped coverage->record) must equal the initial ones and "
        "every coverage in the binary must be sorted and every PairSet ordered by second glyph id; from the initial font also two calls in a row on one loaded font object (via the reversed order to every order); the same on a real nanoemoji COLRv1 font with GSUB and on a second layout font in whose parallel arrays two glyphs carry equal entries; distinct = orders reached per font"
    )
    report.assumptions += ["fontTools compiles coverage tables in the order given (it does not sort them), so unsorted input shows up in the binary"]
