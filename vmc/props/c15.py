"""C15 - The palette honours explicit indices and resolves every colour."""
import itertools
from collections import Counter

RGBA = [(255, 0, 0, 1.0), (0, 0, 255, 1.0), (0, 128, 0, 1.0), (255, 0, 0, 0.333)]  # 0.333: an alpha that is no multiple of 0.01 (85/255)
IDX = (None, 0, 1, 2, 3, 4, 5)
UNIVERSE = [(r, g, b, a, i) for (r, g, b, a) in RGBA for i in IDX]
BLACK = (0, 0, 0, 1.0, None)


def o_pal(S):
    """Reference model (O-PAL): what the palette of a colour set must look like.
    Returns "ERR" or (length, {index: colour}, set of unindexed colours)."""
    S = set(S) or {BLACK}
    byidx = {}
    for c in S:
        if c[4] is not None:
            if c[4] in byidx:
                return "ERR"
            byidx[c[4]] = c
    n = max(len(S), max(byidx, default=-1) + 1)
    return n, byidx, {c for c in S if c[4] is None}


def check_set(S):
    """-> (fingerprint, None) or (fingerprint, (clause, detail))"""
    from nanoemoji.colors import Color, uniq_sort_cpal_colors

    cols = [Color(*c) for c in S]

    def call(it):
        try:
            return [tuple(c) for c in uniq_sort_cpal_colors(it)]
        except ValueError:
            return "ERR"

    got = call(iter(cols))
    got2 = call(reversed(cols))
    exp = o_pal(S)
    if got != got2:
        return "order-dependent", ("C15.order-independent", f"{got} vs {got2}")
    if exp == "ERR":
        if got != "ERR":
            return "conflict-accepted", ("C15.conflict-raises", f"conflicting indices accepted: {got}")
        return "conflict", None
    if got == "ERR":
        return "spurious-error", ("C15.no-spurious-error", "ValueError without a conflict")
    n, byidx, un = exp
    if len(got) != n or n < 1:
        return "length", ("C15.length", f"len {len(got)} expected {n}")
    for i, c in byidx.items():
        if got[i] != c:
            return "index", ("C15.index-honoured", f"slot {i} holds {got[i]} expected {c}")
    free = [i for i in range(n) if i not in byidx]
    placed = [got[i] for i in free[: len(un)]]
    if set(placed) != un:
        return "lowest-free", ("C15.lowest-free-slots", f"unindexed {sorted(un)} placed {placed} in {got}")
    if any(got[i] != BLACK for i in free[len(un):]):
        return "gap", ("C15.gaps-black", f"gap not black in {got}")
    gaps = len(free) - len(un)
    return f"n{n}-idx{len(byidx)}-un{len(un)}-gap{gaps}", None


def shard_fn(shard):
    k, first = shard["k"], shard["first"]
    n = 0
    fps = Counter()
    viol = []
    samples = []
    if k == 0:
        combos = [()]
    else:
        combos = (
            (UNIVERSE[first],) + rest
            for rest in itertools.combinations(UNIVERSE[first + 1:], k - 1)
        )
    for S in combos:
        n += 1
        fp, v = check_set(S)
        fps[fp] += 1
        if v and len(viol) < 20:
            viol.append((v[0], {"kind": "set", "colors": [list(c) for c in S]}, v[1], None))
        if n == 1:
            samples.append({"kind": "set", "colors": [list(c) for c in S]})
    return {"n": n, "fps": dict(fps), "violations": viol, "samples": samples, "executions": 2 * n}


def execute(case):
    from vmc.core.listing import ok, bad

    if case["kind"] == "set":
        fp, v = check_set([tuple(c) for c in case["colors"]])
        return [bad(v[0], v[1]) if v else ok("C15.set", fp)]
    from . import c15_font

    return c15_font.execute(case)


def run(report, tier, only=None):
    from vmc.core import listing

    kmax = 6
    if only in (None, "sets"):
        shards = [{"k": 0, "first": 0}] + [
            {"k": k, "first": f} for k in range(1, kmax + 1) for f in range(len(UNIVERSE) - k + 1)
        ]
        listing.run_shards(report, shards, shard_fn)
        report.extra["max_set_size"] = kmax
    if only in (None, "font"):
        from . import c15_font

        c15_font.run(report, tier)
    report.rule = (
        "every subset of size <= %d of 28 colours (4 RGBA values x {no index, 0..5}) fed to "
        "uniq_sort_cpal_colors in two iteration orders and compared with the reference O-PAL; "
        "plus all colour sets of size <=3 used as fills/stops of real COLRv0/COLRv1 builds; "
        "distinct = outcome fingerprint (length, #indexed, #unindexed, #gaps / error class)" % kmax
    )
    report.assumptions += [
        "colour values outside the 4-value universe behave like those inside (the code never branches on RGB values)",
    ]
