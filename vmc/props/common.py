"""Shared oracle wiring for the picture-based properties."""
import math

from vmc.core.listing import ok, bad
from vmc.oracles import aff, picture, scene as sc, shaper
from vmc.oracles.colr_eval import ColrPicture, placing_scales

FG = (0.2, 0.9, 0.4, 1.0)  # marker foreground colour
INT16 = 32767
ACCEPTED_ERRORS = ("ValueError", "OverflowError", "error", "AssertionError")  # struct.error -> "error"


def user_affine(cfg):
    return tuple(cfg.transform)


def font_space_extent(glyphs, cfg):
    """largest absolute font-space coordinate of any source shape (scene model)"""
    m = 0.0
    for g in glyphs:
        M, adv = sc.vb_to_font(g.vb, cfg.ascender, cfg.descender, cfg.width, user_affine(cfg))
        for leaf in g.leaves():
            x, y, w, h = leaf.bbox
            for px, py in ((x, y), (x + w, y), (x, y + h), (x + w, y + h)):
                fx, fy = aff.ap(M, (px, py))
                m = max(m, abs(fx), abs(fy))
    return m


def error_predicted(glyphs, cfg):
    """The reference model predicts 'unrepresentable' when source geometry approaches the
    int16 coordinate range (gradient geometry may lie somewhat outside its shape)."""
    return font_space_extent(glyphs, cfg) > 0.75 * INT16


def leaf_probes(leaf, M, n=7):
    x, y, w, h = leaf.bbox
    pts = []
    for i in range(n):
        for j in range(n):
            q = (x + w * (i + 0.5) / n, y + h * (j + 0.5) / n)
            if leaf.contains(q):
                pts.append(aff.ap(M, q))
    return pts


def region_probes(cfg, adv, user, G):
    em = cfg.ascender - cfg.descender
    w = adv if adv > 0 else em
    x0, x1 = -0.1 * w, 1.1 * w
    y0, y1 = cfg.descender - 0.1 * em, cfg.ascender + 0.1 * em
    pts = picture.lattice(x0, x1, y0, y1, G)
    if user != aff.I and abs(aff.det(user)) > 1e-9:
        pts = [aff.ap(user, p) for p in pts]
    return pts


def glyph_reference(g, cfg, adv):
    """reference picture of glyph g in font space (C01 placement rule, property text),
    centred in the advance the font actually gives the glyph"""
    user = user_affine(cfg)
    x, y, w, h = g.vb
    s = (cfg.ascender - cfg.descender) / h
    dx = (adv - s * w) / 2
    M = aff.mul(user, (s, 0, 0, -s, dx - x * s, cfg.ascender + y * s))
    if abs(aff.det(M)) < 1e-12:
        return None, (lambda p: (0, 0, 0, 0))
    Mi = aff.inv(M)
    return M, (lambda p: g.at_vb(aff.ap(Mi, p), FG))


def compare_glyph(g, cfg, adv, out_at, delta, G=24, clause="picture"):
    """-> (verdict or None, stats)"""
    user = user_affine(cfg)
    M, ref_at = glyph_reference(g, cfg, adv)
    probes = region_probes(cfg, adv, user, G)
    stats = picture.compare(ref_at, out_at, probes, delta)
    inconclusive = []
    if M is not None:
        for leaf in g.leaves():
            st = picture.compare(ref_at, out_at, leaf_probes(leaf, M), delta)
            for k in ("valid", "skipped", "bad"):
                stats[k] += st[k]
            stats["worst"] = max(stats["worst"], st["worst"])
            stats["first"] += st["first"]
            if st["valid"] < 3:
                inconclusive.append(leaf.label)
    stats["inconclusive_layers"] = inconclusive
    return stats


def colr_checks(prop, glyphs, cfg, font, G=24):
    """Verdicts for 'the COLR glyph reached from the codepoints paints the scene-model picture'."""
    out = []
    user = user_affine(cfg)
    degenerate = abs(aff.det(user)) < 1e-12
    if "COLR" not in font:
        if degenerate or all(not g.leaves() for g in glyphs):
            return [ok(f"{prop}.picture", "no-COLR-degenerate")]
        return [bad(f"{prop}.colr-present", "no COLR table although sources paint something")]
    pic = ColrPicture(font, foreground=FG)
    scales = placing_scales(font)
    tol = cfg.reuse_tolerance if cfg.reuse_tolerance > 0 else 0
    tot = {"valid": 0, "skipped": 0, "bad": 0}
    inconcl = 0
    for g in glyphs:
        names = shaper.shape(font, g.cps)
        if len(names) != 1:
            out.append(bad(f"{prop}.reachable", f"{[hex(c) for c in g.cps]} shapes to {names}"))
            continue
        name = names[0]
        adv = font["hmtx"][name][0]
        delta = 2.0 * scales.get(name, 1.0) + tol
        stats = compare_glyph(g, cfg, adv, lambda p: pic.at(name, p), delta, G=G)
        for k in tot:
            tot[k] += stats[k]
        inconcl += len(stats["inconclusive_layers"])
        if stats["bad"]:
            out.append(bad(f"{prop}.picture", f"glyph {name} {[hex(c) for c in g.cps]}: {stats['bad']} of {stats['valid']} probes differ, worst {stats['worst']}/255, e.g. {stats['first'][:2]}"))
    if not any(v["status"] == "violation" for v in out):
        out.append(ok(f"{prop}.picture", None))
    out[-1]["stats"] = dict(tot, inconclusive_layers=inconcl)
    return out


def graph_fingerprint(font):
    """shape of the COLR paint graphs: formats used, counted coarsely (for non-vacuity)"""
    if "COLR" not in font:
        return "nocolr"
    colr = font["COLR"]
    if colr.version == 0:
        return "v0:" + ",".join(str(len(v)) for v in colr.ColorLayers.values())
    fmts = set()
    n = [0]

    def walk(p):
        fmts.add(int(p.Format))
        n[0] += 1
        for ch in p.getChildren(colr.table):
            walk(ch)

    for r in colr.table.BaseGlyphList.BaseGlyphPaintRecord:
        walk(r.Paint)
    return "v1:" + ".".join(str(f) for f in sorted(fmts))
