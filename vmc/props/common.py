"""Shared oracle wiring for the picture-based properties."""
import math

from vmc.core.listing import ok, bad
from vmc.oracles import aff, picture, scene as sc, shaper
from vmc.oracles.colr_eval import ColrPicture, placing_scales

FG = (0.2, 0.9, 0.4, 1.0)  # marker foreground colour
INT16 = 32767
ACCEPTED_ERRORS = ("ValueError", "OverflowError", "error", "AssertionError")  # struct.error -> "error"


def unit_tol(cfg):
    """'a few font units' of outline quantisation: 2 units, or the cubic-to-quadratic conversion
    error ufo2ft allows (0.001 em) plus rounding when that is more (upem 16384: ~20 units)"""
    return max(2.0, 1.25 * cfg.upem / 1000.0)


def user_affine(cfg):
    return tuple(cfg.transform)


def font_space_extent(glyphs, cfg):
    """largest absolute font-space coordinate of any source shape (scene model)"""
    m = 0.0
    for g in glyphs:
        M, adv = sc.vb_to_font(g.vb, cfg.ascender, cfg.descender, cfg.width, user_affine(cfg))
        for leaf in g.leaves():
            x, y, w, h = leaf.bbox
            for px, py in ((x, y), (x + w, y), (x, y + h), (x + w, y + h)):
                fx, fy = aff.ap(M, (px, py))
                m = max(m, abs(fx), abs(fy))
    return m


def error_predicted(glyphs, cfg):
    """The reference model predicts 'unrepresentable' when source geometry approaches the
    int16 coordinate range (gradient geometry may lie somewhat outside its shape)."""
    if font_space_extent(glyphs, cfg) > 0.75 * INT16:
        return True
    # ... or when a glyph's advance (the larger of the configured width and em height x viewBox aspect) exceeds what hmtx can
    # hold (uint16) -- with an outline in it, what hhea's int16 side-bearing fields can hold
    em = cfg.ascender - cfg.descender
    return any(max(cfg.width, em * g.vb[2] / g.vb[3]) > 32767 for g in glyphs)


def leaf_probes(leaf, M, n=7):
    x, y, w, h = leaf.bbox
    pts = []
    for i in range(n):
        for j in range(n):
            q = (x + w * (i + 0.5) / n, y + h * (j + 0.5) / n)
            if leaf.contains(q):
                pts.append(aff.ap(M, q))
    return pts


def region_probes(cfg, adv, user, G):
    em = cfg.ascender - cfg.descender
    w = adv if adv > 0 else em
    x0, x1 = -0.1 * w, 1.1 * w
    y0, y1 = cfg.descender - 0.1 * em, cfg.ascender + 0.1 * em
    pts = picture.lattice(x0, x1, y0, y1, G)
    if user != aff.I and abs(aff.det(user)) > 1e-9:
        pts = [aff.ap(user, p) for p in pts]
    return pts


def glyph_reference(g, cfg, adv):
    """reference picture of glyph g in font space (C01 placement rule, property text),
    centred in the advance the font actually gives the glyph"""
    user = user_affine(cfg)
    x, y, w, h = g.vb
    s = (cfg.ascender - cfg.descender) / h
    dx = (adv - s * w) / 2
    M = aff.mul(user, (s, 0, 0, -s, dx - x * s, cfg.ascender + y * s))
    if abs(aff.det(M)) < 1e-12:
        return None, (lambda p: (0, 0, 0, 0))
    Mi = aff.inv(M)
    return M, (lambda p: g.at_vb(aff.ap(Mi, p), FG))


def compare_glyph(g, cfg, adv, out_at, delta, G=24, clause="picture"):
    """-> (verdict or None, stats)"""
    user = user_affine(cfg)
    M, ref_at = glyph_reference(g, cfg, adv)
    probes = region_probes(cfg, adv, user, G)
    stats = picture.compare(ref_at, out_at, probes, delta)
    inconclusive = []
    if M is not None:
        for leaf in g.leaves():
            st = picture.compare(ref_at, out_at, leaf_probes(leaf, M), delta)
            for k in ("valid", "skipped", "bad"):
                stats[k] += st[k]
            stats["worst"] = max(stats["worst"], st["worst"])
            stats["first"] += st["first"]
            if st["valid"] < 3:
                inconclusive.append(leaf.label)
    stats["inconclusive_layers"] = inconclusive
    return stats


def colr_checks(prop, glyphs, cfg, font, G=24):
    """Verdicts for 'the COLR glyph reached from the codepoints paints the scene-model picture'."""
    out = []
    user = user_affine(cfg)
    degenerate = abs(aff.det(user)) < 1e-12
    if "COLR" not in font:
        if degenerate or all(not g.leaves() for g in glyphs):
            return [ok(f"{prop}.picture", "no-COLR-degenerate")]
        return [bad(f"{prop}.colr-present", "no COLR table although sources paint something")]
    pic = ColrPicture(font, foreground=FG)
    scales = placing_scales(font)
    tol = cfg.reuse_tolerance if cfg.reuse_tolerance > 0 else 0
    tot = {"valid": 0, "skipped": 0, "bad": 0}
    inconcl = 0
    for g in glyphs:
        names = shaper.shape(font, g.cps)
        if len(names) != 1:
            out.append(bad(f"{prop}.reachable", f"{[hex(c) for c in g.cps]} shapes to {names}"))
            continue
        name = names[0]
        adv = font["hmtx"][name][0]
        delta = unit_tol(cfg) * scales.get(name, 1.0) + tol
        stats = compare_glyph(g, cfg, adv, lambda p: pic.at(name, p), delta, G=G)
        for k in tot:
            tot[k] += stats[k]
        inconcl += len(stats["inconclusive_layers"])
        if stats["bad"]:
            out.append(bad(f"{prop}.picture", f"glyph {name} {[hex(c) for c in g.cps]}: {stats['bad']} of {stats['valid']} probes differ, worst {stats['worst']}/255, e.g. {stats['first'][:2]}"))
    if not any(v["status"] == "violation" for v in out):
        out.append(ok(f"{prop}.picture", None))
    out[-1]["stats"] = dict(tot, inconclusive_layers=inconcl)
    return out


def graph_fingerprint(font):
    """shape of the COLR paint graphs: formats used, counted coarsely (for non-vacuity)"""
    if "COLR" not in font:
        return "nocolr"
    colr = font["COLR"]
    if colr.version == 0:
        return "v0:" + ",".join(str(len(v)) for v in colr.ColorLayers.values())
    fmts = set()
    n = [0]

    def walk(p):
        fmts.add(int(p.Format))
        n[0] += 1
        for ch in p.getChildren(colr.table):
            walk(ch)

    for r in colr.table.BaseGlyphList.BaseGlyphPaintRecord:
        walk(r.Paint)
    return "v1:" + ".".join(str(f) for f in sorted(fmts))


# ---------------------------------------------------------------- OT-SVG ------------
def svg_docs(font):
    """[(text, first gid, last gid)] from the reloaded binary (fontTools gunzips svgz)"""
    out = []
    for d in font["SVG "].docList:
        data = d.data if hasattr(d, "data") else d[0]
        s = d.startGlyphID if hasattr(d, "startGlyphID") else d[1]
        e = d.endGlyphID if hasattr(d, "endGlyphID") else d[2]
        out.append((data, s, e))
    return out


def _use_scale(el):
    from vmc.oracles import svg_eval

    best = 1.0
    for u in el.iter():
        if svg_eval.ln(u) == "use" and u.get("transform"):
            a, b, c, d = svg_eval.parse_transform(u.get("transform"))[:4]
            best = max(best, math.hypot(a, b), math.hypot(c, d))
    return best


def otsvg_checks(prop, glyphs, cfg, font, G=24):
    from vmc.oracles.svg_eval import SvgPicture

    out = []
    user = user_affine(cfg)
    degenerate = abs(aff.det(user)) < 1e-12
    if "SVG " not in font:
        if degenerate or all(not g.leaves() for g in glyphs):
            return [ok(f"{prop}.picture", "no-SVG-degenerate")]
        return [bad(f"{prop}.svg-present", "no SVG table although sources paint something")]
    docs = svg_docs(font)
    pics = {}
    tot = {"valid": 0, "skipped": 0, "bad": 0}
    inconcl = 0
    for g in glyphs:
        names = shaper.shape(font, g.cps)
        if len(names) != 1:
            out.append(bad(f"{prop}.reachable", f"{[hex(c) for c in g.cps]} shapes to {names}"))
            continue
        name = names[0]
        gid = font.getGlyphID(name)
        adv = font["hmtx"][name][0]
        cover = [i for i, (_, s, e) in enumerate(docs) if s <= gid <= e]
        paints = bool(g.leaves()) and not degenerate
        if not cover:
            if paints:
                out.append(bad(f"{prop}.one-document", f"no document covers gid {gid} ({name})"))
            continue
        if len(cover) != 1:
            out.append(bad(f"{prop}.one-document", f"{len(cover)} documents cover gid {gid}"))
            continue
        di = cover[0]
        if di not in pics:
            pics[di] = SvgPicture(docs[di][0], fg=FG)
        pic = pics[di]
        eid = f"glyph{gid}"
        n_el = sum(1 for e in pic.root.iter() if isinstance(e.tag, str) and e.get("id") == eid)
        if n_el != 1:
            if n_el == 0 and not paints:
                continue
            out.append(bad(f"{prop}.one-element", f"{n_el} elements with id {eid} in the document covering gid {gid}"))
            continue
        delta = 2.0 * _use_scale(pic.ids[eid]) + (cfg.reuse_tolerance if cfg.reuse_tolerance > 0 else 0)
        try:
            stats = compare_glyph(g, cfg, adv, lambda p: pic.at_element(eid, (p[0], -p[1])), delta, G=G)
        except KeyError as e:
            out.append(bad(f"{prop}.reference-resolves", f"glyph {name} gid {gid}: reference to {e} does not resolve inside the document that covers it"))
            continue
        for k in tot:
            tot[k] += stats[k]
        inconcl += len(stats["inconclusive_layers"])
        if stats["bad"]:
            out.append(bad(f"{prop}.picture", f"glyph {name} gid {gid} {[hex(c) for c in g.cps]}: {stats['bad']} of {stats['valid']} probes differ, worst {stats['worst']}/255, e.g. {stats['first'][:2]}"))
    if not any(v["status"] == "violation" for v in out):
        out.append(ok(f"{prop}.picture", None))
    out[-1]["stats"] = dict(tot, inconclusive_layers=inconcl)
    return out


def svg_fingerprint(font):
    if "SVG " not in font:
        return "nosvg"
    docs = svg_docs(font)
    uses = sum(d[0].count("<use") for d in docs)
    return f"docs{len(docs)}-use{min(uses, 3)}-lg{int(any('linearGradient' in d[0] for d in docs))}-rg{int(any('radialGradient' in d[0] for d in docs))}"


def _use_scale_matrix(m, s_vb):
    """scale a leaf matrix applies beyond the viewBox->font placement scale s_vb"""
    return max(math.hypot(m[0], m[1]), math.hypot(m[2], m[3])) / s_vb
