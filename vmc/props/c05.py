"""C05 - A COLRv1 clip box never cuts painted content."""
from vmc.core import lattice
from vmc.core.listing import ok, bad
from vmc.gen import scenes
from vmc.oracles import aff, flatten, paths, shaper
from vmc.props import common

KEEP = ("vb_origin", "vb_size", "vb_aspect", "metrics", "width", "user", "tol", "clipq", "outline", "stack", "place", "where", "grp", "nglyphs", "fmt", "copy_paint", "vb_b", "clone", "lin_stops", "rad_stops")
DIMS = {k: scenes.DIMS[k] for k in KEEP}
FULL = dict(scenes.DIMS)
K = {"quick": 2, "thorough": 3}
EPS = 1e-6


def execute(dev):
    from vmc.drive import inproc
    from vmc.oracles.colr_eval import ColrPicture

    dev = {k: v for k, v in dev.items() if k != "_"}
    a = lattice.full(FULL, dev)
    glyphs, over = scenes.mk(a)
    cfg = inproc.base_config(**over)
    try:
        cfg, font, data = inproc.build_direct([(g.cps, g.svg()) for g in glyphs], over)
    except Exception as e:
        kind = type(e).__name__
        if kind in common.ACCEPTED_ERRORS and common.error_predicted(glyphs, cfg):
            return [{"status": "rejected", "clause": "C05.build", "fp": "rejected:" + kind}]
        return [bad("C05.build", f"{kind}: {e}", fp="exc:" + kind)]
    out = []
    user = common.user_affine(cfg)
    degenerate = abs(aff.det(user)) < 1e-12
    if "COLR" not in font:
        if degenerate:
            return [ok("C05.clip", "degenerate-no-colr")]
        return [bad("C05.colr-present", "no COLR table")]
    step = cfg.clipbox_quantization if cfg.clipbox_quantization is not None else round(0.02 * cfg.upem)
    pic = ColrPicture(font, foreground=common.FG)
    tol = cfg.reuse_tolerance if cfg.reuse_tolerance > 0 else 0
    worst_src = worst_out = 0.0
    boxes = 0
    for g in glyphs:
        names = shaper.shape(font, g.cps)
        if len(names) != 1:
            out.append(bad("C05.reachable", f"{g.cps} -> {names}"))
            continue
        name = names[0]
        cb = pic.clipbox(name)
        paints = bool(g.leaves()) and not degenerate
        if not paints:
            if cb is not None:
                out.append(bad("C05.empty-no-box", f"glyph {name} paints nothing but has clip box {cb}"))
            continue
        if cb is None:
            out.append(bad("C05.box-present", f"glyph {name} paints but has no ClipBox"))
            continue
        boxes += 1
        if step > 1:
            offgrid = [v for v in cb if v % step]
            if offgrid:
                out.append(bad("C05.quantised", f"glyph {name}: clip box {cb} edges not multiples of {step}"))
        leaves = flatten.colr_leaves(font, name, common.FG)
        scale = max([1.0] + [max(abs(l.matrix[0]) + abs(l.matrix[2]), abs(l.matrix[1]) + abs(l.matrix[3])) for l in leaves])
        # (a) source shapes placed in font space
        adv = font["hmtx"][name][0]
        M, _ = common.glyph_reference(g, cfg, adv)
        slack_src = tol + max(1.5, 0.75 * common.unit_tol(cfg)) * scale  # the compiled curve may differ from the source curve by the cu2qu error
        for leaf in g.leaves():
            b = paths.bounds(paths.polyline(leaf.path, M))
            pr = max(cb[0] - b[0], cb[1] - b[1], b[2] - cb[2], b[3] - cb[3])
            worst_src = max(worst_src, pr)
            if pr > slack_src:
                out.append(bad("C05.contains-source", f"glyph {name}: source shape {leaf.label} bounds {tuple(round(v, 1) for v in b)} protrude {pr:.2f} beyond clip box {cb} (slack {slack_src:.2f})"))
        # (b) compiled outlines through the accumulated paint transforms
        for i, l in enumerate(leaves):
            b = paths.bounds(l.poly())
            pr = max(cb[0] - b[0], cb[1] - b[1], b[2] - cb[2], b[3] - cb[3])
            worst_out = max(worst_out, pr)
            lscale = max(1.0, abs(l.matrix[0]) + abs(l.matrix[2]), abs(l.matrix[1]) + abs(l.matrix[3]))
            if pr > 1.0 * lscale + EPS:
                out.append(bad("C05.contains-outline", f"glyph {name}: compiled layer {i} ({l.name}) protrudes {pr:.2f} units beyond clip box {cb} (placing scale {lscale:.2f})"))
        # (e) user-visible: picture with and without the clip box
        probes = common.region_probes(cfg, adv, user, 16)
        for leaf in g.leaves():
            probes += common.leaf_probes(leaf, M, 6)
        cut = 0
        for p in probes:
            if pic.at(name, p, clip=False)[3] > 0 and pic.at(name, p, clip=True) != pic.at(name, p, clip=False):
                # a probe within the rounding error of the box edge is not "visibly clipped"
                d = max(cb[0] - p[0], cb[1] - p[1], p[0] - cb[2], p[1] - cb[3])
                if d > 1.0 * scale + EPS:
                    cut += 1
        if cut:
            out.append(bad("C05.no-visible-clipping", f"glyph {name}: {cut} painted probes are removed by the clip box {cb}"))
    if not out:
        out.append(ok("C05.clip", f"step{step}-boxes{boxes}-protrusion{int(worst_out > 0)}"))
    out[0]["worst"] = (round(worst_src, 2), round(worst_out, 2))
    return out


def run(report, tier, only=None):
    from vmc.oracles import selftest

    selftest.run(report)
    k = int(only) if only and only.isdigit() else K[tier]
    devs, results = lattice.explore(report, DIMS, k, execute, relevant=scenes.relevant, timeout=300)
    ws = wo = 0.0
    for r in results:
        if r and "worst" in r[0]:
            ws, wo = max(ws, r[0]["worst"][0]), max(wo, r[0]["worst"][1])
    report.extra["worst_protrusion_of_a_source_shape_units"] = ws
    report.extra["worst_protrusion_of_a_compiled_outline_units"] = wo
    report.extra["deviation_bound"] = k
    report.rule = (
        "E1 over the dimensions that move outlines (viewBox, metrics, width, user transform, placement, reuse, content outside the viewBox) "
        "x clipbox_quantization, <= %d deviations; for every colour glyph the ClipBox read from the binary must contain the scene-model bounds "
        "of every source shape and the transformed bounds of every compiled outline (within the granted slack), lie on the step grid, be absent "
        "for empty glyphs, and never remove a painted probe; distinct = step / number of boxes" % k
    )
