"""C18 - A variable colour font reproduces each master at its location (real CLI, multi-master TOML)."""
import io
import shutil
from pathlib import Path

from vmc.core import lattice
from vmc.core.listing import ok, bad
from vmc.oracles import aff, flatten, paths, picture, shaper
from vmc.oracles.scene import Glyph, Group, Shape, place

DIMS = {
    "variant": ["translate", "scale", "nonuniform", "shrink"],
    "masters": ["two_default_min", "two_default_max", "three_default_middle", "three_default_min"],
    "metrics": [[1024, 950, -250], [1000, 800, -200], [2048, 1900, -500]],
    "width": [1275, 0, 3000],
    "scene": ["base", "nogroup", "three_glyphs", "reuse_rot", "sticks_out", "aba"],
    "range": ["300-700", "100-900", "0-1", "62.5-112.5"],
    "master_names": ["plain", "suffix"],
    "toml_order": ["ascending", "descending", "default_last"],
    # a second axis, declared after wght (not in alphabetical tag order), with one more master along it
    "axes": ["one", "two"],
}
K = {"quick": 1, "thorough": 2}
VARIANT = {
    "translate": aff.tr(6, 4),
    "scale": aff.around(aff.sc(0.85), 50, 50),
    "nonuniform": aff.around(aff.sc(1.1, 0.9), 50, 50),
    "shrink": aff.around(aff.sc(0.6), 30, 70),
}


def _move(node, mm):
    if isinstance(node, Group):
        return Group(node.opacity, [_move(k, mm) for k in node.kids])
    return Shape(place(node.d, mm), node.paint, node.opacity, node.label)


def master_scenes(a):
    """master 0 = the scene; the other master(s) = the same scene with all coordinates moved by an
    affine map (structure, commands and paints unchanged -> point-compatible after picosvg)"""
    from vmc.core import lattice as L
    from vmc.gen import scenes

    dev = {"base": {}, "nogroup": {"grp": "none"}, "three_glyphs": {"nglyphs": 3}, "reuse_rot": {"place": "r30", "outline": "tri"}, "sticks_out": {"grp": "none"},
           "aba": {"clone": "same"}}[a["scene"]]  # three glyphs, the first and the last with equal bounds
    glyphs, over = scenes.mk(L.full(scenes.DIMS, dev))
    if a["scene"] == "sticks_out":
        # a box that reaches past the right edge of the viewBox in every master: clipping to the viewBox is part of each master's build
        from vmc.oracles.scene import Solid

        glyphs[0].nodes.append(Shape("M70,60 L130,60 L130,85 L70,85 Z", Solid("purple"), label="sticks-out"))
    m = VARIANT[a["variant"]]

    def move(node, mm):
        if isinstance(node, Group):
            return Group(node.opacity, [move(k, mm) for k in node.kids])
        return Shape(place(node.d, mm), node.paint, node.opacity, node.label)

    def moved(mm):
        return [Glyph(g.cps, g.vb, [move(n, mm) for n in g.nodes]) for g in glyphs]

    half = tuple((x + y) / 2 for x, y in zip(aff.I, m))
    if a["masters"].startswith("three"):
        return [glyphs, moved(half), moved(m)], over
    return [glyphs, moved(m)], over


def positions(a):
    lo, hi = [float(x) for x in a["range"].split("-")]
    if a["masters"] == "two_default_min":
        return [lo, hi], lo
    if a["masters"] == "two_default_max":
        return [lo, hi], hi
    mid = (lo + hi) / 2
    return [lo, mid, hi], (mid if a["masters"] == "three_default_middle" else lo)


def instance(data, loc):
    """the variable font evaluated at an axis location: fontTools' instancer for glyf/gvar/HVAR/hmtx,
    the oracle's own evaluation of the variable COLR table (vmc/oracles/colrvar.py)"""
    from fontTools.ttLib import TTFont
    from fontTools.varLib import instancer
    from vmc.oracles import colrvar

    vf = TTFont(io.BytesIO(data))
    loc = dict(loc) if isinstance(loc, dict) else {"wght": loc}
    for ax in vf["fvar"].axes:  # pin every axis: the ones not named sit at their default
        loc.setdefault(ax.axisTag, ax.defaultValue)
    inst = instancer.instantiateVariableFont(TTFont(io.BytesIO(data)), loc)
    return colrvar.instantiate_colr(vf, inst, loc)


def _static(workdir, glyphs, over):
    """the static build of one master through the whole pipeline (PIPE: the picosvg step clips to the viewBox, which
    _generate_color_font alone does not)"""
    from vmc.drive import pipe

    return pipe.build(workdir, [(f"emoji_u{'_'.join('%04x' % c for c in g.cps)}.svg", g.svg()) for g in glyphs], dict(over, output_file="Font.ttf"))


def execute(dev):
    from fontTools.ttLib import TTFont
    from fontTools.varLib import instancer
    from vmc.drive import cli, inproc
    from vmc.oracles.colr_eval import ColrPicture
    from vmc.props import common
    import toml

    dev = {k: v for k, v in dev.items() if k != "_"}
    a = lattice.full(DIMS, dev)
    masters, over = master_scenes(a)
    pos, default = positions(a)
    upem, asc, desc = a["metrics"]
    w = cli.mkscratch("c18")
    try:
        cfg = {"output_file": "VF.ttf", "color_format": "glyf_colr_1", "upem": upem, "ascender": asc, "descender": desc, "width": a["width"],
               "axis": {"wght": {"name": "Weight", "default": default}}, "master": {}}
        # master names: plain (m0, m1, ...) or names one of which is a suffix of an earlier one
        mnames = [f"m{i}" for i in range(len(masters))] if a["master_names"] == "plain" else ["regular", "semibold", "bold"][-len(masters):] if len(masters) == 2 else ["regular", "semibold", "bold"]
        # the order in which the masters appear in the TOML is not the order of their positions
        two = a["axes"] == "two"
        locs = [{"wght": p} for p in pos]
        if two:
            cfg["axis"]["wdth"] = {"name": "Width", "default": 100}
            locs = [dict(l, wdth=100) for l in locs]
            # the extra master along the second axis: the default master's scene moved by another affine map
            mm = aff.tr(-4, 5)
            wide = [Glyph(g.cps, g.vb, [_move(n, mm) for n in g.nodes]) for g in masters[pos.index(default)]]
            masters = masters + [wide]
            pos = pos + [default]
            locs = locs + [{"wght": default, "wdth": 125}]
            mnames = mnames + ["wide"]
        idx = list(range(len(masters)))
        if a["toml_order"] == "descending":
            idx.reverse()
        elif a["toml_order"] == "default_last":
            di_ = pos.index(default)
            idx = [i for i in idx if i != di_] + [di_]
        for i in idx:
            gl, p = masters[i], pos[i]
            files = cli.write_sources(w / f"m{i}", [(f"emoji_u{'_'.join('%04x' % c for c in g.cps)}.svg", g.svg()) for g in gl])
            cfg["master"][mnames[i]] = {"style_name": mnames[i].title(), "position": locs[i], "srcs": [str(f) for f in files]}
        (w / "vf.toml").write_text(toml.dumps(cfg))
        r = cli.nanoemoji(w, [w / "vf.toml"], timeout=900)
        out = w / "build" / "VF.ttf"
        if r.returncode != 0 or not out.exists():
            if "IncompatibleFontsError" in (r.stdout or "") + (r.stderr or ""):
                # reuse is decided per master; when the decisions differ the masters are rejected as
                # incompatible (an error, no font): outside the statement, counted
                return [{"status": "rejected", "clause": "C18.builds", "fp": "rejected:incompatible-masters"}]
            return [bad("C18.builds", f"exit {r.returncode}: {(r.stderr or '')[-400:]}")]
        data = out.read_bytes()
        vs = []
        static_over = {"upem": upem, "ascender": asc, "descender": desc, "width": a["width"], "color_format": "glyf_colr_1", "output_file": "x.ttf"}
        for i, (gl, p) in enumerate(zip(masters, locs)):
            inst = instance(data, p)
            scfg, sfont, _ = _static(w / f"static{i}", gl, static_over)
            if "COLR" not in inst:
                vs.append(bad("C18.instance-has-colr", f"instance at wght={p} has no COLR"))
                continue
            ipic, spic = ColrPicture(inst, common.FG), ColrPicture(sfont, common.FG)
            for g in gl:
                ni, ns = shaper.shape(inst, g.cps), shaper.shape(sfont, g.cps)
                if len(ni) != 1 or len(ns) != 1:
                    vs.append(bad("C18.reachable", f"master {i}: {g.cps} -> {ni} / {ns}"))
                    continue
                ni, ns = ni[0], ns[0]
                ai, as_ = inst["hmtx"][ni][0], sfont["hmtx"][ns][0]
                if ai != as_:
                    vs.append(bad("C18.advance", f"master {i} (wght={p}) {[hex(c) for c in g.cps]}: advance {ai} in the instance, {as_} in the static build"))
                li, ls = flatten.colr_leaves(inst, ni, common.FG), flatten.colr_leaves(sfont, ns, common.FG)
                if len(li) != len(ls):
                    vs.append(bad("C18.layers", f"master {i} {[hex(c) for c in g.cps]}: {len(li)} layers in the instance, {len(ls)} in the static build"))
                    continue
                for j, (x, y) in enumerate(zip(li, ls)):
                    d = paths.hausdorff(x.poly(), y.poly())
                    scale = max(1.0, abs(x.matrix[0]) + abs(x.matrix[2]), abs(x.matrix[1]) + abs(x.matrix[3]))
                    # at the default master glyf holds that master's own coordinates, rounded by the same compiler as in the static
                    # build, and a cubic converted with the same number of segments gives the same quadratics: the two agree to
                    # within rounding noise (0.75). Elsewhere gvar's delta optimisation (0.5) and a different segment count from
                    # the joint cubic-to-quadratic conversion of the masters allow up to 2 units
                    exact = i == pos.index(default) and len(x.poly()) == len(y.poly())
                    if d > ((0.75 * scale) if exact else (2.0 * scale + paths.spacing(y.poly()) / 2)):
                        vs.append(bad("C18.outline-positions", f"master {i} (wght={p}) {[hex(c) for c in g.cps]} layer {j}: outline {d:.1f} units from its place in the static build"))
                    if x.tag != y.tag:
                        vs.append(bad("C18.layers", f"master {i} layer {j}: {x.tag} vs {y.tag}"))
                probes = common.region_probes(scfg, as_, aff.I, 18)
                st = picture.compare(lambda q: spic.at(ns, q), lambda q: ipic.at(ni, q), probes, 3.0)
                if st["bad"]:
                    vs.append(bad("C18.picture-at-master", f"master {i} (wght={p}) {[hex(c) for c in g.cps]}: {st['bad']} of {st['valid']} probes differ from the static build, e.g. {st['first'][:1]}"))
        # default location = the default master: the un-instanced font's own (default) values
        vf = TTFont(io.BytesIO(data))
        di = pos.index(default)
        ax = [x for x in vf["fvar"].axes if x.axisTag == "wght"]
        ax2 = [(x.minValue, x.defaultValue, x.maxValue) for x in vf["fvar"].axes if x.axisTag == "wdth"]
        if two and ax2 != [(100, 100, 125)]:
            vs.append(bad("C18.default-is-default-master", f"fvar wdth (min, default, max) = {ax2}, configured (100, 100, 125)"))
        if len(ax) != 1 or (ax[0].minValue, ax[0].defaultValue, ax[0].maxValue) != (min(pos), default, max(pos)):
            vs.append(bad("C18.default-is-default-master", f"fvar wght (min, default, max) = {[(x.minValue, x.defaultValue, x.maxValue) for x in ax]}, "
                          f"configured default {default}, master positions {pos}"))
        dcfg, dfont, _ = _static(w / "static-default", masters[di], static_over)
        for g in masters[di]:
            nv, nd = shaper.shape(vf, g.cps)[0], shaper.shape(dfont, g.cps)[0]
            if vf["hmtx"][nv][0] != dfont["hmtx"][nd][0]:
                vs.append(bad("C18.default-is-default-master", f"{[hex(c) for c in g.cps]}: default advance {vf['hmtx'][nv][0]} vs {dfont['hmtx'][nd][0]}"))
            if vf["glyf"][nv].numberOfContours != dfont["glyf"][nd].numberOfContours:
                vs.append(bad("C18.default-is-default-master", f"{[hex(c) for c in g.cps]}: base glyph differs from the default master's"))
            else:
                cv, cd = vf["glyf"][nv].getCoordinates(vf["glyf"])[0], dfont["glyf"][nd].getCoordinates(dfont["glyf"])[0]
                if len(cv) != len(cd) or any(p1 != p2 for p1, p2 in zip(cv, cd)):
                    vs.append(bad("C18.default-is-default-master", f"{[hex(c) for c in g.cps]}: the font's default outline of {nv} is not the default master's"))
        # the clip box in force contains the interpolated geometry at every location
        lo, hi = min(pos), max(pos)
        for t in (0.25, 0.5, 0.75):
            loc = lo + (hi - lo) * t
            inst = instance(data, loc)
            pic = ColrPicture(inst, common.FG)
            for g in masters[0]:
                name = shaper.shape(inst, g.cps)[0]
                cb = pic.clipbox(name)
                if cb is None:
                    vs.append(bad("C18.clip-contains-interpolated", f"wght={loc}: no clip box for {name}"))
                    continue
                for j, l in enumerate(flatten.colr_leaves(inst, name, common.FG)):
                    bb = paths.bounds(l.poly())
                    scale = max(1.0, abs(l.matrix[0]) + abs(l.matrix[2]), abs(l.matrix[1]) + abs(l.matrix[3]))
                    pr = max(cb[0] - bb[0], cb[1] - bb[1], bb[2] - cb[2], bb[3] - cb[3])
                    if pr > 1.5 * scale:
                        vs.append(bad("C18.clip-contains-interpolated", f"wght={loc} {name} layer {j}: outline protrudes {pr:.1f} units beyond the clip box {cb}"))
        if not vs:
            vs.append(ok("C18.ok", f"{a['masters']}:{a['variant']}:{a['scene']}"))
        return vs
    finally:
        shutil.rmtree(w, ignore_errors=True)


def run(report, tier, only=None):
    from vmc.oracles import selftest

    selftest.run(report)
    k = int(only) if only and only.isdigit() else K[tier]
    import vmc.core.pool as pool

    old = pool.nproc
    pool.nproc = lambda: 8
    try:
        lattice.explore(report, DIMS, k, execute, timeout=1500)
    finally:
        pool.nproc = old
    report.extra["deviation_bound"] = k
    report.rule = (
        "E1 over master derivation (translate / scale / non-uniform scale / shrink of all coordinates of one scene) x master layout (two masters with the "
        "default at min or max, three with the default in the middle or at the min) x order of the masters in the TOML x axis range x metrics x width x scene (group, no group, three glyphs, rotated reuse), "
        "<= %d deviations, each built with the real CLI from a multi-master TOML; the VF is instantiated with fontTools.varLib.instancer at every master "
        "location and compared (advance, layer list, outline positions, picture) with a static build of that master; default location; clip box vs "
        "interpolated outlines at t = 1/4, 1/2, 3/4; distinct = master layout x derivation x scene" % k
    )
    report.assumptions += ["fontTools.varLib.instancer instantiates glyf/gvar, HVAR and variable COLR correctly"]
