"""C16 - Specialised transform paints denote exactly the affine they replace.
Full products of per-entry boundary alphabets through paint.transformed, each emitted paint
compiled by fontTools and read back; gradients through apply_transform."""
import itertools
import math
from collections import Counter

from vmc.core import listing
from vmc.core.listing import ok, bad
from vmc.oracles import aff, grad

MAXF = 32767 / 16384.0
SCALES = [1, 0.5, -0.5, -1, 1 + 1e-9, 1 - 1e-9, 1 + 1e-7, 1 - 1e-7, MAXF, MAXF + 1e-6, MAXF - 1e-6, 2.0, -2.0, -2 - 1e-4, -2 + 1e-4,
          1e-6, -1e-6, 3.0, 0.25, 1.5, 1e-3, 100.0, 32767.0, 32768.0, -32768.0, -32769.0, 0.999, 1.001, 1 / 3, 2 ** -14, 1 + 2 ** -14,
          1 - 2 ** -14, 1.25, -1.25, 0.75, 7.0, -7.0, 1e-5, 0.1, 1.9]
TRANS = [0, 1, -1, 0.5, 1e-10, 5 + 1e-10, 5 + 1e-7, 5 - 1e-10, 100, -100, 32767, 32768, -32768, -32769, 32767.4, 0.25, 1234.5, 16384,
         -16384, 65536, 1e-7, 3.0000000001, 2.9999999999, 10, -10, 255, 256, 1e4, -1e4, 40000]
GEN_LIN = [1, 0.5, -1, 2.5, MAXF + 1e-3, 1e-3, -0.3, 40000.0]
GEN_OFF = [0, 0.5, -0.5, 1e-7, 2.0, 1e-9, -1.3, 40000.0]
GEN_TR = [0, 1, 5 + 1e-10, 0.5, -100, 32768, 1234.5, 40000]


def _font_for(ufo_paint):
    from fontTools.ttLib import TTFont, newTable
    from fontTools.colorLib import builder

    font = TTFont()
    font.setGlyphOrder([".notdef", "g", "sq"])
    colr = builder.buildCOLR({"g": ufo_paint}, version=1, glyphMap=font.getReverseGlyphMap())
    font["CPAL"] = builder.buildCPAL([[(1, 0, 0, 1), (0, 0, 1, 1), (0, 1, 0, 1)]])
    data = colr.compile(font)
    t = newTable("COLR")
    t.decompile(data, font)
    font["COLR"] = t
    return font


def oracle_matrix(p):
    """matrix of a nanoemoji transform-paint chain from its *fields*, with the spec's formulas"""
    from nanoemoji import paint as P

    T = aff.I
    fmts = []
    while True:
        n = type(p).__name__
        if n == "PaintTransform":
            m = tuple(p.transform)
        elif n == "PaintTranslate":
            m = aff.tr(p.dx, p.dy)
        elif n == "PaintScale":
            m = aff.sc(p.scaleX, p.scaleY)
        elif n == "PaintScaleAroundCenter":
            m = aff.around(aff.sc(p.scaleX, p.scaleY), p.center[0], p.center[1])
        elif n == "PaintScaleUniform":
            m = aff.sc(p.scale)
        elif n == "PaintScaleUniformAroundCenter":
            m = aff.around(aff.sc(p.scale), p.center[0], p.center[1])
        elif n == "PaintRotate":
            m = aff.rot(p.angle)
        elif n == "PaintRotateAroundCenter":
            m = aff.around(aff.rot(p.angle), p.center[0], p.center[1])
        elif n == "PaintSkew":
            m = aff.skew(-p.xSkewAngle, p.ySkewAngle)
        elif n == "PaintSkewAroundCenter":
            m = aff.around(aff.skew(-p.xSkewAngle, p.ySkewAngle), p.center[0], p.center[1])
        else:
            return T, fmts, p
        fmts.append(n)
        T = aff.mul(T, m)
        p = p.paint


def binary_matrix(font):
    """matrix of the decompiled chain, with the COLR evaluator's spec formulas"""
    from vmc.oracles.colr_eval import ColrPicture

    pic = ColrPicture(font)
    p = pic.base_paint("g")
    T = aff.I
    centre = 0.0
    while True:
        m = pic.xform(p)
        if m is None:
            return T, centre
        if hasattr(p, "centerX"):
            centre = max(centre, abs(p.centerX), abs(p.centerY))
        T = aff.mul(T, m)
        p = p.Paint


def check_matrix(m):
    """-> (fingerprint, violation or None)"""
    from nanoemoji import paint as P
    from nanoemoji.colors import Color
    from picosvg.svg_transform import Affine2D

    target = P.PaintGlyph(glyph="sq", paint=P.PaintSolid(Color.fromstring("red")))
    try:
        p = P.transformed(Affine2D(*m), target)
    except Exception as e:
        return "transformed-raises:" + type(e).__name__, None  # an error is an allowed outcome
    T, fmts, inner = oracle_matrix(p)
    if inner != target:
        return "inner", ("C16.wraps-target", f"{m}: the emitted chain does not end in the original paint")
    fmt = "+".join(fmts) or "identity"
    # (1) what is emitted denotes the input affine (before any fixed-point rounding)
    for i in range(6):
        tol = 1e-6 * (1 + abs(m[i])) if i < 4 else 2e-6 * (1 + abs(m[i]) + abs(m[i - 4]) + abs(m[i - 2]))
        if abs(T[i] - m[i]) > tol:
            return fmt, ("C16.denotes-input", f"{m} emitted as {fmt} which denotes {tuple(round(v, 9) for v in T)} (entry {i} off by {abs(T[i] - m[i]):.3g})")
    # (2) compiled and read back: raises, or the same affine within fixed-point precision
    try:
        font = _font_for(p.to_ufo_paint([Color.fromstring("red")]))
    except Exception as e:
        return fmt + ":compile-raises", None
    B, centre = binary_matrix(font)
    lin_tol = 2 ** -14 if fmt != "PaintTransform" else 2 ** -16
    for i in range(4):
        if abs(B[i] - m[i]) > lin_tol:
            return fmt, ("C16.roundtrip", f"{m} emitted as {fmt}: binary holds {tuple(round(v, 6) for v in B)} (linear entry {i} off by {abs(B[i] - m[i]):.3g}: wrapped or clamped?)")
    for i in (4, 5):
        tol = 2 ** -16 if fmt == "PaintTransform" else 1.0 + 2 ** -14 * max(centre, 1.0)
        if abs(B[i] - m[i]) > tol:
            return fmt, ("C16.roundtrip", f"{m} emitted as {fmt}: binary holds {tuple(round(v, 6) for v in B)} (translation {i} off by {abs(B[i] - m[i]):.3g}: wrapped or clamped?)")
    # (3) nanoemoji's own reading of what it wrote (Paint.from_ot, the way COLR is read for the conversion to SVG)
    # denotes the same affine as the oracle's reading of the binary
    from vmc.oracles.colr_eval import ColrPicture

    pic = ColrPicture(font)
    q = pic.base_paint("g")
    R = aff.I
    while pic.xform(q) is not None:
        R = aff.mul(R, tuple(_own_transform(P, q)))
        q = q.Paint
    for i in range(6):
        if abs(R[i] - B[i]) > 1e-6 * (1 + abs(B[i])):
            return fmt, ("C16.read-back", f"{m} emitted as {fmt}: the binary denotes {tuple(round(v, 6) for v in B)}, Paint.from_ot reads it as {tuple(round(v, 6) for v in R)}")
    return fmt, None


def _own_transform(P, ot_paint):
    """the affine nanoemoji's reader assigns to one transform paint of a decompiled COLR table (child paints are not converted)"""
    import dataclasses

    paint_t = getattr(P, ot_paint.getFormatName())
    args = {}
    for f in dataclasses.fields(paint_t):
        if f.name == "paint":
            args[f.name] = P.PaintSolid()
            continue
        ot_field, conv = P._PAINT_FIELD_TO_OT_FIELD.get(f.name, (f.name, lambda v: v))
        args[f.name] = tuple(conv(getattr(ot_paint, x)) for x in ot_field) if isinstance(ot_field, tuple) else conv(getattr(ot_paint, ot_field))
    return paint_t(**args).gettransform()


def shard_fn(shard):
    from vmc.drive import inproc

    inproc.init()
    kind = shard["kind"]
    if kind == "axis":
        a = SCALES[shard["ai"]]
        space = ((a, 0, 0, d, e, f) for d in SCALES for e in TRANS for f in TRANS)
        if shard.get("max_off") is not None:
            mo = shard["max_off"]
            space = (m for m in space if sum((m[0] != 1, m[3] != 1, m[4] != 0, m[5] != 0)) <= mo)
    else:
        a = GEN_LIN[shard["ai"]]
        b = GEN_OFF[shard["bi"]]
        space = ((a, b, c, d, e, f) for c in GEN_OFF for d in GEN_LIN for e in GEN_TR for f in GEN_TR
                 if (b, c) != (0, 0) and abs(a * d - b * c) > 1e-12)
    n = 0
    fps = Counter()
    viol = []
    samples = []
    for m in space:
        n += 1
        fp, v = check_matrix(m)
        fps[fp] += 1
        if v and len(viol) < 25:
            viol.append((v[0], {"kind": "matrix", "m": list(m)}, v[1], None))
        if n == 1:
            samples.append({"kind": "matrix", "m": list(m)})
    return {"n": n, "fps": dict(fps), "violations": viol, "samples": samples}


# --------------------------------------------------------------------------- gradients ----
def gradient_geometries():
    from nanoemoji import paint as P
    from nanoemoji.colors import Color
    from picosvg.geometric_types import Point

    red, blue, green = Color.fromstring("red"), Color.fromstring("blue"), Color.fromstring("green")
    st2 = (P.ColorStop(0.0, red), P.ColorStop(1.0, blue))
    st3 = (P.ColorStop(0.0, red), P.ColorStop(0.4, green), P.ColorStop(1.0, blue))
    E = P.Extend
    return [
        P.PaintLinearGradient(stops=st2, extend=E.PAD, p0=Point(100, 100), p1=Point(400, 100), p2=Point(100, 400)),
        P.PaintLinearGradient(stops=st3, extend=E.REPEAT, p0=Point(100, 100), p1=Point(300, 250), p2=Point(-50, 300)),
        P.PaintLinearGradient(stops=st2, extend=E.REFLECT, p0=Point(0, 0), p1=Point(0, 200), p2=Point(-200, 0)),
        P.PaintLinearGradient(stops=st2, extend=E.PAD, p0=Point(50, 60), p1=Point(350, 260), p2=Point(50, 360)),  # p2 not perpendicular
        P.PaintRadialGradient(stops=st2, extend=E.PAD, c0=Point(300, 300), c1=Point(300, 300), r0=0, r1=250),
        P.PaintRadialGradient(stops=st3, extend=E.PAD, c0=Point(250, 280), c1=Point(300, 300), r0=0, r1=250),
        P.PaintRadialGradient(stops=st2, extend=E.REPEAT, c0=Point(280, 300), c1=Point(300, 300), r0=30, r1=150),
        P.PaintRadialGradient(stops=st2, extend=E.REFLECT, c0=Point(300, 300), c1=Point(300, 300), r0=40, r1=120),
    ]


GRAD_AFFINES = [m for m in itertools.product([1, 0.5, -1, 2.5], [0, 0.3], [0, -0.4], [1, -1, 0.7, 1.8], [0, 10.5, 300], [0, -20])
                if abs(m[0] * m[3] - m[1] * m[2]) > 1e-9] + [(100.0, 0, 0, 100.0, 0, 0), (1, 0, 0, 1, 40000, 0), (0.01, 0, 0, 0.01, 0, 0)]


def _orig_colour(g, q):
    stops = sorted(((s.stopOffset, (s.color.red / 255, s.color.green / 255, s.color.blue / 255, s.color.alpha)) for s in g.stops), key=lambda s: s[0])
    mode = g.extend.name.lower()
    if type(g).__name__ == "PaintLinearGradient":
        t = grad.linear_t(tuple(g.p0), tuple(g.p1), tuple(g.p2), q)
        c = stops[-1][1] if t is None else grad.colorline(stops, t, mode)
    else:
        t = grad.radial_t(tuple(g.c0), g.r0, tuple(g.c1), g.r1, q)
        if t is None:
            return (0, 0, 0, 0)
        c = grad.colorline(stops, t, mode)
    return (c[0] * c[3], c[1] * c[3], c[2] * c[3], c[3])


def exec_gradient(case):
    from vmc.drive import inproc

    inproc.init()
    from nanoemoji import paint as P
    from nanoemoji.colors import Color
    from picosvg.svg_transform import Affine2D
    from vmc.oracles import picture
    from vmc.oracles.colr_eval import ColrPicture

    g = gradient_geometries()[case["g"]]
    A = tuple(case["A"])
    kind = type(g).__name__
    out = []
    if kind == "PaintRadialGradient":
        u, r = P._decompose_uniform_transform(Affine2D(*A))
        prod = aff.mul(tuple(r), tuple(u))
        if any(abs(x - y) > 1e-6 * (1 + abs(y)) for x, y in zip(prod, A)):
            out.append(bad("C16.uniform-times-residual", f"{A}: uniform {tuple(u)} then residual {tuple(r)} = {tuple(round(v, 6) for v in prod)}"))
        su = tuple(u)
        if abs(abs(su[0]) - abs(su[3])) > 1e-9 or abs(su[1]) > 1e-9 or abs(su[2]) > 1e-9:
            out.append(bad("C16.uniform-part-is-uniform", f"{A}: 'uniform' part {su}"))
    try:
        p = g.apply_transform(Affine2D(*A))
    except OverflowError:
        return out or [ok("C16.gradient", kind + ":overflow-raised")]
    colors = sorted({s.color for s in g.stops}, key=lambda c: tuple(c[:4]))
    try:
        font = _font_for(p.to_ufo_paint(colors))
    except Exception as e:
        return out or [ok("C16.gradient", kind + ":compile-raises")]
    pic = ColrPicture(font)
    pic.pal = [(c.red / 255, c.green / 255, c.blue / 255, c.alpha) for c in colors]
    root = pic.base_paint("g")
    Ai = aff.inv(A)
    qs = [(60 + 120 * i, 40 + 125 * j) for i in range(5) for j in range(5)]
    probes = [aff.ap(A, q) for q in qs]
    scale = max(math.hypot(A[0], A[1]), math.hypot(A[2], A[3]), 1.0)
    st = picture.compare(lambda p_: _orig_colour(g, aff.ap(Ai, p_)), lambda p_: pic.ev(root, p_, aff.I), probes, 1.5 * scale)
    if st["bad"]:
        out.append(bad("C16.gradient-colour", f"{kind} #{case['g']} through {A}: {st['bad']} of {st['valid']} probes differ, worst {st['worst']}/255, e.g. {st['first'][:1]}"))
    if not out:
        wrapped = pic.xform(root) is not None
        out.append(ok("C16.gradient", f"{kind}:{'wrapped' if wrapped else 'plain'}:valid{min(st['valid'], 1)}"))
    return out


ANGLES = [0, 10, 30, 45, -30, -60, 90, 180, 270]
SKEWS = [0, 10, 30, -30, 60, -45]
CENTRES = [(0, 0), (100, 50), (-20, 300)]


def paint_cases():
    """one case per transform-paint class x field values: the classes a font read with Paint.from_ot may hold, including the ones
    nanoemoji never emits itself (rotate, skew)"""
    out = []
    for c in CENTRES:
        ac = "" if c == (0, 0) else "AroundCenter"
        ck = {} if c == (0, 0) else {"center": list(c)}
        for a in ANGLES:
            out.append({"kind": "paint", "cls": "PaintRotate" + ac, "args": dict(ck, angle=a)})
        for x in SKEWS:
            for y in SKEWS:
                out.append({"kind": "paint", "cls": "PaintSkew" + ac, "args": dict(ck, xSkewAngle=x, ySkewAngle=y)})
        for sx in (1, 0.5, -1, 1.75):
            for sy in (1, 0.5, -1.25):
                out.append({"kind": "paint", "cls": "PaintScale" + ac, "args": dict(ck, scaleX=sx, scaleY=sy)})
            out.append({"kind": "paint", "cls": "PaintScaleUniform" + ac, "args": dict(ck, scale=sx)})
    for dx in (0, 7, -300):
        for dy in (0, 11, 250):
            out.append({"kind": "paint", "cls": "PaintTranslate", "args": {"dx": dx, "dy": dy}})
    for m in ((1, 0.25, -0.5, 1, 10, -20), (0, 1, -1, 0, 0, 100), (0.5, 0, 0.75, -1, -30, 40)):
        out.append({"kind": "paint", "cls": "PaintTransform", "args": {"transform": list(m)}})
    return out


def exec_paint(case):
    """a transform paint constructed directly: gettransform() must be the affine the OpenType spec assigns to its fields, before
    and after a trip through the binary (the oracle's own formulas in both places)"""
    from nanoemoji import paint as P
    from nanoemoji.colors import Color
    from vmc.drive import inproc

    inproc.init()
    args = {k: (tuple(v) if isinstance(v, list) else v) for k, v in case["args"].items()}
    leaf = P.PaintGlyph(glyph="sq", paint=P.PaintSolid(Color.fromstring("red")))
    p = getattr(P, case["cls"])(paint=leaf, **args)
    want, _, _ = oracle_matrix(p)
    got = tuple(p.gettransform())
    for i in range(6):
        if abs(got[i] - want[i]) > 1e-6 * (1 + abs(want[i])):
            return [bad("C16.paint-denotes", f"{case['cls']}({args}).gettransform() = {tuple(round(v, 6) for v in got)}, the spec gives {tuple(round(v, 6) for v in want)}")]
    font = _font_for(p.to_ufo_paint([Color.fromstring("red")]))
    B, _ = binary_matrix(font)
    from vmc.oracles.colr_eval import ColrPicture

    R = tuple(_own_transform(P, ColrPicture(font).base_paint("g")))
    for i in range(6):
        if abs(B[i] - want[i]) > 2 ** -13 * (1 + abs(want[i])) + (0 if i < 4 else 2 ** -13 * 300):
            return [bad("C16.paint-roundtrip", f"{case['cls']}({args}): the binary denotes {tuple(round(v, 6) for v in B)}, the fields {tuple(round(v, 6) for v in want)}")]
        if abs(R[i] - B[i]) > 1e-6 * (1 + abs(B[i])):
            return [bad("C16.read-back", f"{case['cls']}({args}): the binary denotes {tuple(round(v, 6) for v in B)}, Paint.from_ot reads it as {tuple(round(v, 6) for v in R)}")]
    return [ok("C16.paint-denotes", case["cls"])]


def execute(case):
    if case.get("kind") == "paint":
        return exec_paint(case)
    if case.get("_") == "font" or "kind" not in case:  # a state of the font-level lattice (replay)
        return font_level(case)
    if case["kind"] == "matrix":
        from vmc.drive import inproc

        inproc.init()
        fp, v = check_matrix(tuple(case["m"]))
        return [bad(v[0], v[1])] if v else [ok("C16.matrix", fp)]
    return exec_gradient(case)


def font_level(dev):
    from vmc.props import c01

    out = []
    for v in c01.execute({k_: v_ for k_, v_ in dev.items() if k_ != "_"}):
        v = dict(v)
        v["clause"] = v["clause"].replace("C01.", "C16.font-level-")
        out.append(v)
    return out


def run(report, tier, only=None):
    if only in (None, "axis"):
        mo = 3 if tier == "quick" else None
        shards = [{"kind": "axis", "ai": i, "max_off": mo} for i in range(len(SCALES))]
        listing.run_shards(report, shards, shard_fn, timeout=1800)
    if only in (None, "general"):
        shards = [{"kind": "general", "ai": i, "bi": j} for i in range(len(GEN_LIN)) for j in range(len(GEN_OFF))]
        if tier == "quick":
            shards = [s for s in shards if s["ai"] < 4 and s["bi"] < 5]
        listing.run_shards(report, shards, shard_fn, timeout=1800)
    if only in (None, "gradient"):
        cases = [{"kind": "gradient", "g": gi, "A": list(A)} for gi in range(len(gradient_geometries())) for A in GRAD_AFFINES]
        listing.run(report, cases, execute, timeout=120)
    if only in (None, "paints"):
        listing.run(report, paint_cases(), execute, timeout=120)
    if only in (None, "font"):
        # font level: the transforms nanoemoji itself puts into a paint tree when it reuses shapes (placing transform on the outline,
        # compensating transform on the gradient, split into uniform part + residual, the wrap-instead-of-bake route when the baked
        # geometry would overflow) -- every state of the sub-lattice is a real build whose picture must equal the source's
        from vmc.core import lattice
        from vmc.gen import scenes
        from vmc.oracles import selftest
        from vmc.props import c01

        selftest.run(report)
        dims = {k_: scenes.DIMS[k_] for k_ in ("place", "copy_paint", "user", "lin_gt", "rad_gt", "rad_geom", "lin_vec", "where", "vb_b")}
        lattice.explore(report, dims, 2 if tier == "quick" else 3, font_level, relevant=scenes.relevant, timeout=300, tag="font")
    report.rule = (
        "full products of boundary alphabets: (i) b=c=0, a,d over 40 scale values x e,f over 30 translation values (quick: <=3 entries off identity); "
        "(ii) general matrices over 8 values per entry (invertible, b or c non-zero); every matrix through paint.transformed: the emitted chain's matrix "
        "(oracle's own formulas) must equal the input, and compiled+decompiled by fontTools it must raise or equal the input within fixed-point "
        "precision; (iii) 8 gradient geometries x ~390 affines through apply_transform / _decompose_uniform_transform, colours compared at 25 "
        "corresponding points; (iv) font level: E1 over placement x paint of the copy x user transform x gradient transforms x units (<=2 deviations quick, <=3 thorough), "
        "real builds whose COLRv1 picture must equal the source (the transforms nanoemoji emits when it reuses shapes); (v) every transform-paint "
        "class (translate, scale, rotate, skew, their uniform / around-centre variants, general matrix) x a small alphabet of field values, constructed "
        "directly: gettransform() against the spec's formula for the fields, then compiled, decompiled and read back; distinct = emitted paint format (+ raises)"
    )
    report.assumptions += ["fontTools raises on out-of-range Fixed/F2Dot14/FWORD fields (measured), so a silent wrap can only come from nanoemoji's own choice of encoding"]
