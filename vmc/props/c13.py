"""C13 - COLR-to-SVG conversion preserves the picture for supported paint graphs.
E2: words of transform paints around a PaintGlyph and around its fill, embedded in several
graph structures; fonts built with fontTools, converted with the real colr_to_svg."""
import io
import itertools
import logging
import re

from vmc.core import listing
from vmc.core.listing import ok, bad
from vmc.oracles import aff, picture

WRAPPERS = ["Transform", "Translate", "Scale", "ScaleAroundCenter", "ScaleUniform", "ScaleUniformAroundCenter",
            "Rotate", "RotateAroundCenter", "Skew", "SkewAroundCenter"]
FILLS = ["solid", "solidA", "fg", "fgA", "linfg", "lin", "linrep", "linrefl", "rad", "radrep", "radrefl", "radring", "solidpa", "linpa"]
STRUCTURES = ["two_layers", "single", "nested", "colrglyph", "group", "composite_outline", "colrglyph_outer", "layers_outer", "group_outer", "two_glyphs"]
UNSUPPORTED = ["sweep", "composite_multiply", "composite_gradient_backdrop"]
FG = (0.0, 0.0, 0.0, 1.0)


def _pf():
    from fontTools.ttLib.tables.otTables import PaintFormat as PF

    return PF


def wrap(name, p):
    PF = _pf()
    return {
        "Transform": lambda: {"Format": PF.PaintTransform, "Transform": (0.9, 0.2, -0.3, 1.1, 40, -30), "Paint": p},
        "Translate": lambda: {"Format": PF.PaintTranslate, "dx": 120, "dy": -80, "Paint": p},
        "Scale": lambda: {"Format": PF.PaintScale, "scaleX": 1.25, "scaleY": 0.75, "Paint": p},
        "ScaleAroundCenter": lambda: {"Format": PF.PaintScaleAroundCenter, "scaleX": 1.25, "scaleY": 0.75, "centerX": 300, "centerY": 300, "Paint": p},
        "ScaleUniform": lambda: {"Format": PF.PaintScaleUniform, "scale": 0.75, "Paint": p},
        "ScaleUniformAroundCenter": lambda: {"Format": PF.PaintScaleUniformAroundCenter, "scale": 0.75, "centerX": 300, "centerY": 300, "Paint": p},
        "Rotate": lambda: {"Format": PF.PaintRotate, "angle": 20, "Paint": p},
        "RotateAroundCenter": lambda: {"Format": PF.PaintRotateAroundCenter, "angle": 20, "centerX": 300, "centerY": 300, "Paint": p},
        "Skew": lambda: {"Format": PF.PaintSkew, "xSkewAngle": 15, "ySkewAngle": -10, "Paint": p},
        "SkewAroundCenter": lambda: {"Format": PF.PaintSkewAroundCenter, "xSkewAngle": 15, "ySkewAngle": -10, "centerX": 300, "centerY": 300, "Paint": p},
    }[name]()


def fill(name):
    PF = _pf()
    solid = lambda i, a=1.0: {"Format": PF.PaintSolid, "PaletteIndex": i, "Alpha": a}
    lin = lambda ext: {"Format": PF.PaintLinearGradient, "ColorLine": {"ColorStop": [(0, 0), (1, 1)], "Extend": ext},
                       "x0": 150, "y0": 150, "x1": 450, "y1": 300, "x2": 100, "y2": 400}
    rad = lambda ext: {"Format": PF.PaintRadialGradient, "ColorLine": {"ColorStop": [(0, 3), (1, 2)], "Extend": ext},
                       "x0": 250, "y0": 300, "r0": 30, "x1": 300, "y1": 350, "r1": 300}
    ring = {"Format": PF.PaintRadialGradient, "ColorLine": {"ColorStop": [(0, 3), (1, 2)], "Extend": "pad"},
            "x0": 300, "y0": 330, "r0": 120, "x1": 300, "y1": 330, "r1": 300}  # concentric circles, the ramp starts at r0 > 0
    return {"radring": lambda: ring, "solid": lambda: solid(0), "solidpa": lambda: solid(5, 0.8),
            "linpa": lambda: dict(lin("pad"), ColorLine={"ColorStop": [{"StopOffset": 0, "PaletteIndex": 5, "Alpha": 0.5},
                                                                       {"StopOffset": 1, "PaletteIndex": 1, "Alpha": 1.0}], "Extend": "pad"}), "solidA": lambda: solid(1, 0.5), "fg": lambda: solid(0xFFFF),
            "fgA": lambda: solid(0xFFFF, 0.5),
            "linfg": lambda: dict(lin("pad"), ColorLine={"ColorStop": [{"StopOffset": 0, "PaletteIndex": 0xFFFF, "Alpha": 0.25},
                                                                       {"StopOffset": 1, "PaletteIndex": 1, "Alpha": 1.0}], "Extend": "pad"}),
            "lin": lambda: lin("pad"), "linrep": lambda: lin("repeat"), "linrefl": lambda: lin("reflect"),
            "rad": lambda: rad("pad"), "radrep": lambda: rad("repeat"), "radrefl": lambda: rad("reflect"),
            "sweep": lambda: {"Format": PF.PaintSweepGradient, "ColorLine": {"ColorStop": [(0, 0), (1, 1)], "Extend": "pad"},
                              "centerX": 300, "centerY": 300, "startAngle": 0, "endAngle": 270}}[name]()


def make_font(colr, n_palettes=1, version=1, adv=1000, upem=1000, asc=800, desc=-200):
    from fontTools.fontBuilder import FontBuilder
    from fontTools.pens.ttGlyphPen import TTGlyphPen
    from fontTools.ttLib import TTFont

    def poly(pts):
        pen = TTGlyphPen(None)
        pen.moveTo(pts[0])
        for p in pts[1:]:
            pen.lineTo(p)
        pen.closePath()
        return pen.glyph()

    def composite():
        pen = TTGlyphPen({"L": None, "T": None})
        pen.addComponent("L", (0.8, 0, 0, 0.8, 60, 40))
        pen.addComponent("T", (1, 0, 0, 1, -80, 30))
        return pen.glyph()

    fb = FontBuilder(upem, isTTF=True)
    order = [".notdef", "base", "base2", "L", "T", "C"]
    fb.setupGlyphOrder(order)
    fb.setupCharacterMap({0xE000: "base", 0xE001: "base2"})
    L = poly([(100, 100), (500, 100), (500, 250), (250, 250), (250, 600), (100, 600)])
    T = poly([(300, 50), (900, 150), (500, 700)])
    empty = TTGlyphPen(None).glyph
    glyphs = {".notdef": empty(), "base": empty(), "base2": empty(), "L": L, "T": T, "C": composite()}
    fb.setupGlyf(glyphs)
    tmp = TTFont()
    # lsb must equal xMin (fontTools' glyph set shifts outlines otherwise)
    fb.setupHorizontalMetrics({g: (adv, 0) for g in order})
    fb.font["glyf"].compile(fb.font) if False else None
    for g in order:
        gl = fb.font["glyf"][g]
        gl.recalcBounds(fb.font["glyf"])
        # the second colour glyph is narrower than the first: the placement of a picture in a fixed viewBox depends on the advance
        fb.font["hmtx"][g] = (adv - 300 if g == "base2" else adv, getattr(gl, "xMin", 0) or 0)
    fb.setupHorizontalHeader(ascent=asc, descent=desc)
    fb.setupNameTable({"familyName": "T", "styleName": "R"})
    fb.setupOS2(sTypoAscender=asc, sTypoDescender=desc, usWinAscent=asc, usWinDescent=-desc)
    fb.setupPost()
    fb.setupCOLR(colr, version=version)
    # entry 5 is translucent *in the palette* (alpha of a paint or stop multiplies with it)
    pal = [(1, 0, 0, 1), (0, 0, 1, 1), (0, 0.5, 0, 1), (1, 1, 0, 1), (0, 0, 0, 1), (0, 0.6, 0.9, 0.5)]
    pal2 = [(0, 1, 1, 1), (1, 0, 1, 1), (0.5, 0.5, 0, 1), (0, 0, 0.5, 1), (0, 0, 0, 1), (0.9, 0.3, 0, 0.4)]
    fb.setupCPAL([pal] if n_palettes == 1 else [pal, pal2])
    b = io.BytesIO()
    fb.font.save(b)
    return TTFont(io.BytesIO(b.getvalue()))


def graph(case):
    PF = _pf()
    glyph = lambda g, p: {"Format": PF.PaintGlyph, "Glyph": g, "Paint": p}
    solid = lambda i, a=1.0: {"Format": PF.PaintSolid, "PaletteIndex": i, "Alpha": a}
    f = fill(case["fill"])
    for w in reversed(case["inner"]):
        f = wrap(w, f)
    outline = "C" if case["structure"] == "composite_outline" else "L"
    x = glyph(outline, f)
    st = case["structure"]
    other = glyph("T", solid(2))
    if st.endswith("_outer"):
        # the outer transform paints sit *above* a colour-glyph reference / a layer list / the group
        # composite instead of directly above the PaintGlyph
        if st == "colrglyph_outer":
            ref, extra = {"Format": PF.PaintColrGlyph, "Glyph": "base2"}, {"base2": x}
        elif st == "layers_outer":
            ref, extra = {"Format": PF.PaintColrLayers, "Layers": [x, glyph("T", solid(3, 0.7))]}, {}
        else:
            ref, extra = {"Format": PF.PaintComposite, "CompositeMode": "src_in",
                          "SourcePaint": {"Format": PF.PaintColrLayers, "Layers": [x, glyph("T", solid(3))]}, "BackdropPaint": solid(4, 0.5)}, {}
        for w in reversed(case["outer"]):
            ref = wrap(w, ref)
        return dict({"base": {"Format": PF.PaintColrLayers, "Layers": [other, ref]}}, **extra)
    for w in reversed(case["outer"]):
        x = wrap(w, x)
    if case.get("unsupported") == "composite_multiply":
        return {"base": {"Format": PF.PaintComposite, "CompositeMode": "multiply", "SourcePaint": x, "BackdropPaint": other}}
    if case.get("unsupported") == "composite_gradient_backdrop":
        return {"base": {"Format": PF.PaintComposite, "CompositeMode": "src_in", "SourcePaint": x, "BackdropPaint": glyph("T", fill("lin"))}}
    if st in ("two_layers", "composite_outline"):
        return {"base": {"Format": PF.PaintColrLayers, "Layers": [other, x]}}
    if st == "single":
        return {"base": x}
    if st == "two_glyphs":
        # a second colour glyph that uses the very same fill (each glyph's document has to define it itself), first in glyph order
        # ("base") a glyph with another gradient followed by the shared one
        return {"base": {"Format": PF.PaintColrLayers, "Layers": [glyph("T", fill("linrefl" if case["fill"] != "linrefl" else "lin")), x]},
                "base2": {"Format": PF.PaintColrLayers, "Layers": [other, glyph("T", f)]}}
    if st == "nested":
        return {"base": {"Format": PF.PaintColrLayers, "Layers": [other, {"Format": PF.PaintColrLayers, "Layers": [x, glyph("T", solid(3, 0.7))]}]}}
    if st == "colrglyph":
        return {"base": {"Format": PF.PaintColrLayers, "Layers": [other, {"Format": PF.PaintColrGlyph, "Glyph": "base2"}]}, "base2": x}
    if st == "group":
        return {"base": {"Format": PF.PaintColrLayers, "Layers": [other, {
            "Format": PF.PaintComposite, "CompositeMode": "src_in",
            "SourcePaint": {"Format": PF.PaintColrLayers, "Layers": [x, glyph("T", solid(3))]},
            "BackdropPaint": solid(4, 0.5)}]}}
    raise ValueError(st)


class _Cap(logging.Handler):
    def __init__(self):
        super().__init__()
        self.msgs = []

    def emit(self, r):
        if r.levelno >= logging.WARNING:
            self.msgs.append(r.getMessage())


def execute(case):
    from vmc.drive import inproc

    inproc.init()
    from nanoemoji.colr_to_svg import colr_to_svg, glyph_region
    from picosvg.geometric_types import Rect
    from vmc.oracles.colr_eval import ColrPicture
    from vmc.oracles.svg_eval import SvgPicture

    version = case.get("version", 1)
    if version == 0:
        colr = {"base": [("T", 2), ("L", 0), ("C", 0xFFFF)]}
    else:
        colr = graph(case)
    try:
        font = make_font(colr, n_palettes=case.get("palettes", 1), version=version)
    except Exception as e:
        return [{"status": "harness-error", "clause": "harness.font", "detail": f"cannot build the test font: {type(e).__name__}: {e}"}]
    vb = None if case.get("vb", "region") == "region" else Rect(0, 0, 100, 100)
    cap = _Cap()
    import absl.logging as alog

    root = alog.get_absl_logger()
    root.addHandler(cap)
    old_v = alog.get_verbosity()
    alog.set_verbosity(alog.WARNING)
    alog.get_absl_handler().setLevel(logging.CRITICAL)  # keep the console quiet; `cap` sees the records
    try:
        try:
            svgs = colr_to_svg((lambda gn: glyph_region(font, gn)) if vb is None else (lambda gn: vb), font)
        except Exception as e:
            if case.get("unsupported"):
                return [ok("C13.unsupported-flagged", "raises:" + type(e).__name__)]
            return [bad("C13.converts", f"{type(e).__name__}: {e}")]
    finally:
        root.removeHandler(cap)
        alog.set_verbosity(old_v)
    out = []
    if version == 1 and not case.get("unsupported"):
        # every other colour glyph of the font is converted in the same call: its document must stand on its own too
        for other_name in sorted(n for n in svgs if n != "base"):
            out += _compare_glyph(font, svgs, other_name, vb, glyph_region)
    text = svgs["base"].tostring()
    pic = ColrPicture(font, FG)
    try:
        sp = SvgPicture(text, FG)
    except Exception as e:
        return [bad("C13.svg-wellformed", str(e))]
    region = glyph_region(font, "base")
    V = vb or region
    asc = -region.y
    desc = -(region.h - asc)
    adv = region.w
    s = (asc - desc) / V.h
    dx = (adv - s * V.w) / 2

    def out_at(p):  # inverse of the C01 placement, written independently
        return sp.at_doc(((p[0] - dx) / s + V.x, (asc - p[1]) / s + V.y))

    probes = picture.lattice(-100, adv + 100, desc - 100, asc + 100, 24)
    unsupported = case.get("unsupported")
    try:
        st = picture.compare(lambda p: pic.at("base", p), out_at, probes, 2.0)
    except NotImplementedError as e:
        if unsupported:
            # the reference semantics does not define this format either; the converter must flag it
            if cap.msgs:
                return [ok("C13.unsupported-flagged", "warns")]
            return [bad("C13.unsupported-flagged", f"{unsupported}: converted without an error or a warning")]
        return [{"status": "harness-error", "clause": "harness.eval", "detail": f"reference evaluator: {e}"}]
    if unsupported:
        if st["bad"] and not cap.msgs:
            out.append(bad("C13.unsupported-flagged", f"{unsupported}: silently drawn differently ({st['bad']} of {st['valid']} probes), no warning"))
        return out or [ok("C13.unsupported-flagged", "warns" if cap.msgs else "drawn-correctly")]
    if st["bad"]:
        out.append(bad("C13.picture", f"{st['bad']} of {st['valid']} probes differ, worst {st['worst']}/255, e.g. {st['first'][:2]}"))
    if st["valid"] < 100:
        out.append({"status": "inconclusive", "clause": "C13.picture", "fp": "inconclusive"})
    if version == 1 and case["fill"] in ("fg", "fgA", "linfg") and "currentColor" not in text:
        out.append(bad("C13.foreground-is-currentColor", "foreground palette index not written as currentColor"))
    if version == 0 and "currentColor" not in text:
        out.append(bad("C13.foreground-is-currentColor", "COLRv0 layer with index 0xFFFF not written as currentColor"))
    vars_ = set(int(n) for n in re.findall(r"var\(--color(\d+)", text))
    if case.get("palettes", 1) == 2:
        used = {2, 0} if version == 0 else _palette_indices(font)
        if vars_ != used:
            out.append(bad("C13.palette-variables", f"multi-palette font: fills use var(--colorN) for N={sorted(vars_)}, the graph uses entries {sorted(used)}"))
    elif vars_:
        out.append(bad("C13.palette-variables", f"single-palette font but fills use var(--colorN): {sorted(vars_)}"))
    return out or [ok("C13.picture", f"{case.get('structure')}:{len(case.get('outer', []))}{len(case.get('inner', []))}:{case.get('fill')}")]


def _compare_glyph(font, svgs, name, vb, glyph_region):
    from vmc.oracles.colr_eval import ColrPicture
    from vmc.oracles.svg_eval import SvgPicture

    pic = ColrPicture(font, FG)
    try:
        sp = SvgPicture(svgs[name].tostring(), FG)
    except Exception as e:
        return [bad("C13.svg-wellformed", f"{name}: {e}")]
    region = glyph_region(font, name)
    V = vb or region
    asc = -region.y
    desc = -(region.h - asc)
    adv = region.w
    s = (asc - desc) / V.h
    dx = (adv - s * V.w) / 2
    probes = picture.lattice(-100, adv + 100, desc - 100, asc + 100, 24)
    try:
        st = picture.compare(lambda p: pic.at(name, p), lambda p: sp.at_doc(((p[0] - dx) / s + V.x, (asc - p[1]) / s + V.y)), probes, 2.0)
    except KeyError as e:
        return [bad("C13.picture", f"{name}: the document refers to {e}, which it does not define")]
    if st["bad"]:
        return [bad("C13.picture", f"{name}: {st['bad']} of {st['valid']} probes differ, worst {st['worst']}/255, e.g. {st['first'][:2]}")]
    return []


def _palette_indices(font):
    from fontTools.ttLib.tables.otTables import PaintFormat as PF

    colr = font["COLR"].table
    out = set()
    seen = set()

    def walk(p):
        if id(p) in seen:
            return
        seen.add(id(p))
        if p.Format == PF.PaintSolid and p.PaletteIndex != 0xFFFF:
            out.add(p.PaletteIndex)
        if p.Format in (PF.PaintLinearGradient, PF.PaintRadialGradient):
            out.update(s.PaletteIndex for s in p.ColorLine.ColorStop if s.PaletteIndex != 0xFFFF)
        if p.Format == PF.PaintColrGlyph:
            for r in colr.BaseGlyphList.BaseGlyphPaintRecord:
                if r.BaseGlyph == p.Glyph:
                    walk(r.Paint)
        for ch in p.getChildren(colr):
            walk(ch)

    for r in colr.BaseGlyphList.BaseGlyphPaintRecord:
        if r.BaseGlyph == "base":
            walk(r.Paint)
    return out


def words(maxlen):
    out = [[]]
    for n in range(1, maxlen + 1):
        out += [list(t) for t in itertools.product(WRAPPERS, repeat=n)]
    return out


def run(report, tier, only=None):
    from vmc.oracles import selftest

    selftest.run(report)
    outer_len = 1 if tier == "quick" else 2
    cases = []
    variants = [{}] + [{"structure": s} for s in STRUCTURES[1:]] + [{"palettes": 2}, {"vb": "box100"}, {"palettes": 2, "vb": "box100"}, {"structure": "two_glyphs", "vb": "box100"}, {"structure": "colrglyph_outer", "vb": "box100"}]
    for o in words(outer_len):
        for i in words(1):
            for f in FILLS:
                if tier == "quick" and o and i and f not in ("solid", "lin", "rad"):
                    continue
                for v in variants:
                    if len(o) == 2 and v and (i or f not in ("solid", "lin", "rad")):
                        continue
                    c = {"outer": o, "inner": i, "fill": f, "structure": "two_layers", "palettes": 1, "vb": "region"}
                    c.update(v)
                    cases.append(c)
    if tier == "quick":
        # directly nested transform paints (words of length 2) around the glyph and around the fill
        for w in words(2):
            if len(w) == 2:
                cases.append({"outer": w, "inner": [], "fill": "solid", "structure": "two_layers", "palettes": 1, "vb": "region"})
                cases.append({"outer": [], "inner": w, "fill": "lin", "structure": "two_layers", "palettes": 1, "vb": "region"})
    else:
        for w in words(2):
            if len(w) == 2:
                for f in ("lin", "rad"):
                    cases.append({"outer": [], "inner": w, "fill": f, "structure": "two_layers", "palettes": 1, "vb": "region"})
    for pal in (1, 2):
        for vb in ("region", "box100"):
            cases.append({"version": 0, "palettes": pal, "vb": vb, "fill": "v0", "structure": "v0", "outer": [], "inner": []})
    for u in UNSUPPORTED:
        for o in words(1)[:3]:
            c = {"outer": o, "inner": [], "fill": "sweep" if u == "sweep" else "lin", "structure": "two_layers", "palettes": 1, "vb": "region", "unsupported": u}
            cases.append(c)
    listing.run(report, cases, execute, timeout=120)
    report.extra["max_outer_word_length"] = outer_len
    report.rule = (
        "E2: paint graphs outer* . PaintGlyph(outline, inner* . fill): all words of length <=%d (outer) and <=1 (inner) over the 10 static transform paints "
        "x 9 fills (solid, alpha, foreground, linear x3 extends with rotated p2, radial x3 extends with r0>0, c0!=c1) x structure variants (two layers, "
        "single, nested layers, PaintColrGlyph, SRC_IN group composite, composite outline glyph, 2 palettes, a 0 0 100 100 viewBox) + COLRv0 + unsupported "
        "formats; each font built with fontTools, converted with the real colr_to_svg; the SVG picture (independent SVG evaluator) must equal the COLR "
        "picture (independent COLR evaluator) through the inverse placement; distinct = structure, word lengths, fill" % outer_len
    )
    report.assumptions += ["the two evaluators were written separately and meet only through nanoemoji's converter"]
