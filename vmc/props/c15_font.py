def run(report, tier):
    pass
def execute(case):
    return []
