"""C15 font level: every colour set of size <=3 used as fills / gradient stops of real builds."""
import itertools

from vmc.core import listing
from vmc.core.listing import ok, bad
from vmc.props.c15 import UNIVERSE, o_pal, BLACK


def _css(c):
    r, g, b, a, idx = c
    s = "#%02X%02X%02X" % (r, g, b)
    return f"var(--color{idx}, {s})" if idx is not None else s


def svgs(cols, v1):
    """glyph A: one solid shape per colour (+ a gradient over all of them in COLRv1);
    glyph B: currentColor + the first colour again"""
    shapes = []
    for i, c in enumerate(cols):
        op = f' opacity="{c[3]}"' if c[3] != 1 else ""
        shapes.append(f'<path d="M{5 + 30 * i},5 L{30 + 30 * i},5 L{30 + 30 * i},40 L{5 + 30 * i},40 Z" fill="{_css(c)}"{op}/>')
    defs = ""
    if v1 and len(cols) >= 2:
        stops = "".join(f'<stop offset="{i / (len(cols) - 1)}" stop-color="{_css(c)}"' + (f' stop-opacity="{c[3]}"' if c[3] != 1 else "") + "/>" for i, c in enumerate(cols))
        defs = f'<linearGradient id="g" x1="0" y1="0" x2="1" y2="0">{stops}</linearGradient>'
        shapes.append('<path d="M5,50 L95,50 L95,90 L5,90 Z" fill="url(#g)"/>')
    a = f'<svg xmlns="http://www.w3.org/2000/svg" viewBox="0 0 100 100"><defs>{defs}</defs>{"".join(shapes)}</svg>'
    extra = ""
    if cols:
        c = cols[0]
        op = f' opacity="{c[3]}"' if c[3] != 1 else ""
        extra = f'<path d="M50,50 L90,50 L90,90 L50,90 Z" fill="{_css(c)}"{op}/>'
    b = ('<svg xmlns="http://www.w3.org/2000/svg" viewBox="0 0 100 100"><defs/>'
         '<path d="M5,5 L45,5 L45,45 L5,45 Z" fill="currentColor"/>' + extra + "</svg>")
    return a, b


def execute(case):
    from vmc.drive import inproc
    from vmc.oracles import flatten
    from vmc.props import common

    cols = [tuple(c) for c in case["colors"]]
    v1 = case["fmt"].endswith("_1")
    a, b = svgs(cols, v1)
    used = {(c[0], c[1], c[2], 1.0 if v1 else c[3], c[4]) for c in cols}
    exp = o_pal(used)
    try:
        cfg, font, data = inproc.build_direct([((0xE000,), a), ((0xE001,), b)], {"color_format": case["fmt"], "output_file": "x.ttf"})
    except ValueError as e:
        if exp == "ERR":
            return [ok("C15.font", "conflict-rejected")]
        return [bad("C15.font-build", f"ValueError without an index conflict: {e}")]
    except Exception as e:
        return [bad("C15.font-build", f"{type(e).__name__}: {e}")]
    if exp == "ERR":
        return [bad("C15.conflict-raises", f"conflicting palette indices accepted in a {case['fmt']} build")]
    out = []
    cpal = font["CPAL"]
    if len(cpal.palettes) != 1:
        out.append(bad("C15.single-palette", f"{len(cpal.palettes)} palettes"))
    pal = [(c.red, c.green, c.blue, round(c.alpha / 255, 3), None) for c in cpal.palettes[0]]
    n, byidx, un = exp
    strip = lambda c: (c[0], c[1], c[2], round(c[3] * 255))  # alpha as the 8-bit value CPAL stores
    if len(pal) != n:
        out.append(bad("C15.length", f"palette has {len(pal)} entries, expected {n}: {pal}"))
    else:
        for i, c in byidx.items():
            if strip(pal[i]) != strip(c):
                out.append(bad("C15.index-honoured", f"entry {i} is {pal[i][:4]}, declared var(--color{i}, {c[:4]})"))
        free = [i for i in range(n) if i not in byidx]
        if {strip(pal[i]) for i in free[: len(un)]} != {strip(c) for c in un}:
            out.append(bad("C15.lowest-free-slots", f"unindexed {sorted(strip(c) for c in un)} vs palette {pal} (indexed {sorted(byidx)})"))
        if any(strip(pal[i]) != strip(BLACK) for i in free[len(un):]):
            out.append(bad("C15.gaps-black", f"{pal}"))
    if v1 and any(p[3] != 1.0 for p in pal):
        out.append(bad("C15.v1-entries-opaque", f"{pal}"))
    # every colour a paint uses resolves to the source colour
    cmap = font.getBestCmap()
    la = flatten.colr_leaves(font, cmap[0xE000], common.FG)
    for i, c in enumerate(cols):
        if i >= len(la):
            out.append(bad("C15.resolves", f"layer {i} missing"))
            continue
        got = la[i].fill_at(la[i].interior(3)[0])
        expc = (c[0] / 255, c[1] / 255, c[2] / 255, c[3])
        if max(abs(x - y) for x, y in zip(got, expc)) > 1.5 / 255:
            out.append(bad("C15.resolves", f"layer {i}: paint resolves to {tuple(round(v, 3) for v in got)}, source colour {tuple(round(v, 3) for v in expc)}"))
    # a layer whose colour was declared var(--colorN, c) must *use* entry N (that is what overriding a palette entry relies on),
    # also when the same colour sits in a lower slot as well
    used_idx = _layer_palette_indices(font, cmap[0xE000])
    for i, c in enumerate(cols):
        if c[4] is not None and i < len(used_idx) and used_idx[i] is not None and used_idx[i] != c[4]:
            out.append(bad("C15.paint-uses-declared-index", f"layer {i} declared var(--color{c[4]}, {c[:4]}) paints with palette entry {used_idx[i]} (palette {pal})"))
    if v1 and len(cols) >= 2:
        g = la[len(cols)]
        pts = g.interior(12)
        xs = sorted(pts)
        for p, c in ((xs[0], cols[0]), (xs[-1], cols[-1])):
            got = g.fill_at(p)
            expc = (c[0] / 255, c[1] / 255, c[2] / 255, c[3])
            # the extreme interior probes sit within ~5% of the gradient ends
            if max(abs(x - y) for x, y in zip(got, expc)) > 0.08 + max(abs(x - y) for x, y in zip((cols[0][0] / 255, cols[0][1] / 255, cols[0][2] / 255, cols[0][3]), (cols[-1][0] / 255, cols[-1][1] / 255, cols[-1][2] / 255, cols[-1][3]))) * 0.12:
                out.append(bad("C15.resolves", f"gradient stop near x={p[0]:.0f}: {tuple(round(v, 3) for v in got)} vs stop colour {tuple(round(v, 3) for v in expc)}"))
    # currentColor -> 0xFFFF
    colr = font["COLR"]
    if colr.version == 0:
        first = colr.ColorLayers[cmap[0xE001]][0].colorID
    else:
        rec = [r for r in colr.table.BaseGlyphList.BaseGlyphPaintRecord if r.BaseGlyph == cmap[0xE001]][0]
        p = rec.Paint
        from fontTools.ttLib.tables.otTables import PaintFormat as PF

        while p.Format != PF.PaintSolid:
            p = p.getChildren(colr.table)[0]
        first = p.PaletteIndex
    if first != 0xFFFF:
        out.append(bad("C15.current-color", f"currentColor compiled to palette index {first}"))
    if not out:
        out.append(ok("C15.font", f"{case['fmt']}:n{n}:idx{len(byidx)}"))
    return out


def _layer_palette_indices(font, name):
    """palette index of the solid paint of each layer of the glyph, bottom-up (None for a gradient layer)"""
    from fontTools.ttLib.tables.otTables import PaintFormat as PF

    colr = font["COLR"]
    if colr.version == 0:
        return [l.colorID for l in colr.ColorLayers.get(name, [])]
    table = colr.table
    recs = [r for r in table.BaseGlyphList.BaseGlyphPaintRecord if r.BaseGlyph == name]
    if not recs:
        return []
    rec = recs[0]
    out = []

    def solid_of(p):
        while True:
            if p.Format == PF.PaintSolid:
                return p.PaletteIndex
            ch = p.getChildren(table)
            if len(ch) != 1:
                return None
            p = ch[0]

    def walk(p):
        if p.Format == PF.PaintColrLayers:
            for ch in p.getChildren(table):
                walk(ch)
        else:
            out.append(solid_of(p))

    walk(rec.Paint)
    return out


def run(report, tier):
    kmax = 3
    cases = []
    for k in range(0, kmax + 1):
        for S in itertools.combinations(UNIVERSE, k):
            for fmt in ("glyf_colr_1", "glyf_colr_0"):
                cases.append({"kind": "font", "colors": [list(c) for c in S], "fmt": fmt})
    listing.run(report, cases, execute, timeout=120)
    report.extra["font_level_builds"] = len(cases)
    report.extra["font_level_max_set_size"] = kmax
