"""C09 - Re-running after any edit or interruption converges to the clean build.
E3: breadth-first search over histories; a state is a materialised (sources, options, build
directory) snapshot, a transition applies one event and runs the real `nanoemoji` command on a
copy of the snapshot (cp -a keeps mtimes), optionally with one injected fault."""
import hashlib
import json
import os
import shutil
import subprocess
from pathlib import Path

from vmc.core import pool
from vmc.core.listing import ok, bad
from vmc.core.report import HarnessError, canon

FAULT_SITE = str(Path(__file__).resolve().parents[1] / "drive" / "faults" / "site")
FAULT_BIN = str(Path(__file__).resolve().parents[1] / "drive" / "faults" / "bin")

CONTENT = {}


def contents():
    """source universe: three file names, two contents each"""
    if CONTENT:
        return CONTENT
    from vmc.core import lattice as L
    from vmc.gen import scenes

    g3, _ = scenes.mk(L.full(scenes.DIMS, {"nglyphs": 3}))
    g3b, _ = scenes.mk(L.full(scenes.DIMS, {"nglyphs": 3, "donor_paint": "named", "copy_paint": "var", "outline": "tri"}))
    for i, name in enumerate(("A", "B", "C")):
        CONTENT[name + "0"] = g3[i].svg()
        CONTENT[name + "1"] = g3b[i].svg()
    CONTENT["X0"] = CONTENT["X1"] = g3[2].svg()
    CONTENT["S0"] = CONTENT["S1"] = g3b[2].svg()
    return CONTENT


# a quality floor pngquant cannot reach on gradient artwork: it exits 99 and the wrapper step falls back to the unquantised bitmap
PQ_STRICT = "--speed 1 --skip-if-larger --quality 100-100"
# X: a source whose file name carries no codepoints -- the glyph-map step refuses it, the final inputs do not build
# S: a two-codepoint sequence (the only source that puts a ligature into the generated feature file)
FILES = {"A": "emoji_ue000.svg", "B": "emoji_ue001.svg", "C": "emoji_ue003.svg", "X": "sun.svg", "S": "emoji_ue000_200d_e001.svg"}
DEFAULT_OPTS = {"color_format": "glyf_colr_1"}
EVENTS = [
    ["add", "C"], ["add", "X"], ["remove", "X"], ["add", "S"], ["remove", "S"], ["remove", "B"], ["modify", "A"], ["touch", "A"], ["rename", "A", "C"], ["rename", "A", "B"],
    ["opt", "color_format", "picosvg"], ["opt", "color_format", "cbdt"], ["opt", "metrics", "1000,800,-200"], ["opt", "reuse_tolerance", -1],
    ["opt", "clip_to_viewbox", False], ["opt", "clipbox_quantization", 64], ["opt", "bitmap_resolution", 64], ["opt", "use_pngquant", False],
    ["opt", "use_zopflipng", False], ["opt", "pngquant_flags", PQ_STRICT],
]
VECTOR_NODES = ["picosvg", "write_glyphmap", "write_fea", "write_part_file", "write_combined_part_files", "write_font"]
BITMAP_NODES = ["resvg", "pngquant", "pngquant-bin", "zopfli"]  # pngquant = the Python wrapper step, pngquant-bin = the executable it runs
MODES = ["fail-before", "truncate-kill", "truncate-killall"]
DRIVER_FAULTS = [["driver", "kill-before-ninja-file"], ["driver", "kill-half-ninja-file"]]


def flags(opts):
    out = ["--output_file=Font.ttf"]
    for k, v in sorted(opts.items()):
        if k == "metrics":
            u, a, d = v.split(",")
            out += [f"--upem={u}", f"--ascender={a}", f"--descender={d}"]
        elif isinstance(v, bool):
            out.append(f"--{k}" if v else f"--no{k}")
        else:
            out.append(f"--{k}={v}")
    return out


def apply_event(state_dir, srcs, opts, ev):
    """mutates the snapshot's src dir; returns (srcs, opts) or None when the event is not enabled"""
    src = state_dir / "src"
    srcs = dict(srcs)
    opts = dict(opts)
    kind = ev[0]
    if kind == "add":
        if ev[1] in srcs:
            return None
        (src / FILES[ev[1]]).write_text(contents()[ev[1] + "0"])
        srcs[ev[1]] = ev[1] + "0"
    elif kind == "remove":
        if ev[1] not in srcs or len(srcs) == 1:
            return None
        (src / FILES[ev[1]]).unlink()
        del srcs[ev[1]]
    elif kind == "modify":
        if ev[1] not in srcs:
            return None
        cur = srcs[ev[1]]
        new = cur[:-1] + ("1" if cur.endswith("0") else "0")
        (src / FILES[ev[1]]).write_text(contents()[new])
        srcs[ev[1]] = new
    elif kind == "touch":
        if ev[1] not in srcs:
            return None
        os.utime(src / FILES[ev[1]])
    elif kind == "rename":
        a, b = ev[1], ev[2]
        if a not in srcs:
            return None
        os.rename(src / FILES[a], src / FILES[b])  # keeps the mtime of a; replaces b if present
        srcs[b] = srcs.pop(a)
    elif kind == "opt":
        if opts.get(ev[1], None) == ev[2]:
            return None
        if ev[1] in ("bitmap_resolution", "use_pngquant", "use_zopflipng", "pngquant_flags") and opts.get("color_format") != "cbdt":
            return None
        opts[ev[1]] = ev[2]
    return srcs, opts


WS = "/var/tmp/vmc-c09-ws"  # every invocation sees its state directory at this one path (private mount namespace)
_NS = []


def namespaces_work():
    """can a child process bind-mount in a private mount namespace? (needs root / CAP_SYS_ADMIN)"""
    if not _NS:
        os.makedirs(WS, exist_ok=True)
        probe = Path(WS + "-probe")
        probe.mkdir(exist_ok=True)
        (probe / "x").write_text("1")
        r = subprocess.run(["unshare", "-m", "sh", "-c", f"mount --bind {probe} {WS} && test -f {WS}/x"], capture_output=True)
        shutil.rmtree(probe, ignore_errors=True)
        _NS.append(r.returncode == 0 and os.environ.get("VERIF_C09_NO_NAMESPACE") != "1")
    return _NS[0]


def invoke(state_dir, srcs, opts, fault=None):
    """One real `nanoemoji` invocation on the snapshot. The resolved TOML, the glyph map and build.ninja hold absolute
    paths; a snapshot copied to a new directory would therefore look 'changed' to every step, which hides exactly the
    staleness the property is about. So the snapshot is bind-mounted at one fixed path inside a private mount
    namespace and the command runs there: along a history, nothing changes but what the events change."""
    from vmc.drive import cli

    ns = namespaces_work()
    seen_dir = Path(WS) if ns else state_dir
    files = [str(seen_dir / "src" / FILES[k]) for k in sorted(srcs)]
    extra = {}
    marker = state_dir / "fault"
    if fault:
        shutil.rmtree(marker, ignore_errors=True)
        marker.mkdir()
        extra = {"VERIF_FAULT": f"{fault[0]}:{fault[1]}", "VERIF_FAULT_DIR": str(marker), "PYTHONPATH": FAULT_SITE}
    env = cli.env(extra)
    if fault:
        env["PATH"] = FAULT_BIN + ":" + env["PATH"]
    try:
        cmd = ["nanoemoji"] + flags(opts) + files
        if ns:
            import shlex

            cmd = ["unshare", "-m", "sh", "-c", f"mount --bind {shlex.quote(str(state_dir))} {WS} && cd {WS} && exec " + " ".join(shlex.quote(c) for c in cmd)]
        r = subprocess.run(cmd, cwd=str(state_dir), env=env, capture_output=True, text=True, timeout=600, start_new_session=True)
        rc, err = r.returncode, (r.stderr or "")[-300:]
    except subprocess.TimeoutExpired:
        rc, err = 124, "timeout"
    taken = (marker / "fault.taken").exists() if fault else False
    shutil.rmtree(marker, ignore_errors=True)
    return rc, err, taken


# ------------------------------------------------------------------ variable-font histories ------
def _vf_write(d, present, edited=False):
    """two masters (three glyphs each, the second master's coordinates moved) + the TOML; `present` = glyph indices kept;
    `edited`: the sources of the *non-default* master hold other coordinates (the default master's are left alone). Only files whose content changes are written,
    so that along a history nothing but the edit itself looks new to ninja"""
    import toml
    from vmc.props import c18

    masters, _ = c18.master_scenes({"scene": "three_glyphs", "variant": "translate", "masters": "two_default_min"})
    other, _ = c18.master_scenes({"scene": "three_glyphs", "variant": "scale", "masters": "two_default_min"})
    cfg = {"output_file": "VF.ttf", "color_format": "glyf_colr_1", "axis": {"wght": {"name": "Weight", "default": 300}}, "master": {}}
    seen = Path(WS) if namespaces_work() else d
    want = {}
    for i, gl in enumerate(masters):
        names = []
        for j, g in enumerate(gl):
            if j in present:
                n = f"emoji_u{'_'.join('%04x' % c for c in g.cps)}.svg"
                want[d / "src" / f"m{i}" / n] = (other[i][j] if edited and i == 1 else g).svg()
                names.append(str(seen / "src" / f"m{i}" / n))
        cfg["master"][f"m{i}"] = {"style_name": f"M{i}", "position": {"wght": [300, 700][i]}, "srcs": names}
    want[d / "vf.toml"] = toml.dumps(cfg)
    for f in list((d / "src").rglob("*.svg")) if (d / "src").exists() else []:
        if f not in want:
            f.unlink()
    for f, text in want.items():
        f.parent.mkdir(parents=True, exist_ok=True)
        if not f.exists() or f.read_text() != text:
            f.write_text(text)


def _vf_invoke(d):
    from vmc.drive import cli
    import shlex

    if namespaces_work():
        cmd = ["unshare", "-m", "sh", "-c", f"mount --bind {shlex.quote(str(d))} {WS} && cd {WS} && exec nanoemoji vf.toml"]
    else:
        cmd = ["nanoemoji", "vf.toml"]
    r = subprocess.run(cmd, cwd=str(d), env=cli.env(), capture_output=True, text=True, timeout=900, start_new_session=True)
    f = d / "build" / "VF.ttf"
    return r.returncode, (r.stderr or "")[-300:], hashlib.sha256(f.read_bytes()).hexdigest() if f.exists() else None


def exec_vf(case):
    """a history of source sets of a two-master variable font on one build directory (the masters are written as UFO
    *directories*, which a later run finds in place), compared with a clean build of the final set"""
    from vmc.drive import cli

    root = cli.mkscratch("c09vf")
    try:
        d = root / "w"
        d.mkdir()
        edits = case.get("edits") or [False] * len(case["sets"])
        for present, ed in zip(case["sets"], edits):
            _vf_write(d, set(present), ed)
            rc, err, got = _vf_invoke(d)
            if rc != 0:
                # a state whose clean build fails as well is an unusable input, correctly refused
                c0 = root / "clean0"
                c0.mkdir()
                _vf_write(c0, set(present), ed)
                if _vf_invoke(c0)[0] != 0:
                    return [{"status": "rejected", "clause": "C09.state", "fp": "vf:refused"}]
                return [bad("C09.converges", f"variable-font history {case['sets']} (edits {edits}): invocation exits {rc}: {err}")]
        c = root / "clean"
        c.mkdir()
        _vf_write(c, set(case["sets"][-1]), edits[-1])
        rc, err, want = _vf_invoke(c)
        if rc != 0 or want is None:
            return [{"status": "harness-error", "clause": "harness.vf", "detail": f"clean VF build fails: {err}"}]
        if got != want:
            return [bad("C09.converges", f"variable-font history of source sets {case['sets']} (non-default master edited: {edits}): VF.ttf differs from the clean build of the final state")]
        return [ok("C09.state", "vf:" + "-".join(str(len(p)) for p in case["sets"]))]
    finally:
        shutil.rmtree(root, ignore_errors=True)


def font_sha(state_dir):
    f = state_dir / "build" / "Font.ttf"
    return hashlib.sha256(f.read_bytes()).hexdigest() if f.exists() else None


def clean_sha(srcs, opts, root):
    """font of a clean build of the given final inputs in an empty directory"""
    key = hashlib.sha256(canon([sorted(srcs.items()), sorted(opts.items())]).encode()).hexdigest()[:16]
    marker = root / "clean" / (key + ".sha")
    if marker.exists():
        return marker.read_text()
    d = root / "clean" / f"{key}-{os.getpid()}"
    shutil.rmtree(d, ignore_errors=True)
    (d / "src").mkdir(parents=True)
    for k, c in srcs.items():
        (d / "src" / FILES[k]).write_text(contents()[c])
    rc, err, _ = invoke(d, srcs, opts)
    sha = font_sha(d) if rc == 0 else None
    shutil.rmtree(d, ignore_errors=True)
    tmp = root / "clean" / f"{key}-{os.getpid()}.tmp"
    tmp.write_text(sha or f"FAILED rc={rc} {err}")
    os.replace(tmp, marker)  # atomic: concurrent workers may compute the same clean build twice, never read half of it
    return marker.read_text()


def state_key(state_dir, srcs, opts):
    h = hashlib.sha256()
    h.update(canon([sorted(srcs.items()), sorted(opts.items())]).encode())
    b = state_dir / "build"
    if b.exists():
        for p in sorted(b.rglob("*")):
            if p.is_file() and p.name not in (".ninja_log", ".ninja_deps"):
                h.update(str(p.relative_to(b)).encode())
                h.update(hashlib.sha256(p.read_bytes()).digest())
    return h.hexdigest()[:16]


def transition(case):
    """case: parent snapshot dir, srcs, opts, event, fault, root. Creates the child snapshot."""
    root = Path(case["root"])
    parent = Path(case["parent"])
    child = root / "states" / case["id"]
    shutil.rmtree(child, ignore_errors=True)
    child.parent.mkdir(parents=True, exist_ok=True)
    subprocess.run(["cp", "-a", str(parent), str(child)], check=True)
    res = apply_event(child, case["srcs"], case["opts"], case["event"])
    if res is None:
        shutil.rmtree(child, ignore_errors=True)
        return [{"status": "skipped", "clause": "C09.event-not-enabled", "fp": None}]
    srcs, opts = res
    hist = case["history"] + [{"event": case["event"], "fault": case["fault"]}]
    out = []
    want = clean_sha(srcs, opts, root)
    rc, err, taken = invoke(child, srcs, opts, case["fault"])
    if case["fault"]:
        if not taken:
            out.append({"status": "skipped", "clause": "C09.fault-not-reached", "fp": "fault-not-reached"})
        elif rc == 0:
            out.append(bad("C09.failed-step-fails-invocation", f"history {hist}: the step {case['fault']} failed/was killed but the invocation exits 0"))
        # convergence: one further fault-free invocation
        rc, err, _ = invoke(child, srcs, opts)
    got = font_sha(child)
    if want.startswith("FAILED"):
        # the final inputs do not build from scratch either: nothing to converge to
        if rc == 0:
            out.append(bad("C09.converges", f"history {hist}: incremental build exits 0 but the clean build of the same inputs fails ({want})"))
        else:
            out.append({"status": "rejected", "clause": "C09.unbuildable-inputs", "fp": "unbuildable"})
    elif rc != 0:
        out.append(bad("C09.converges", f"history {hist}: a fault-free invocation exits {rc}: {err}", sig=_sig(hist)))
    elif got != want:
        out.append(bad("C09.converges", f"history {hist}: Font.ttf differs from the clean build of the same final inputs (sources {sorted(srcs.items())}, options {opts})", sig=_sig(hist)))
    if not any(v["status"] == "violation" for v in out):
        out.append(ok("C09.state", ("fault:" + case["fault"][0] + ":" + case["fault"][1]) if case["fault"] else "event:" + case["event"][0]))
    out[-1]["child"] = {"dir": str(child), "srcs": srcs, "opts": opts, "history": hist, "key": state_key(child, srcs, opts), "buildable": not want.startswith("FAILED"),
                         # histories go on from a state that builds, and from one that is *correctly* refused (the way back -- removing the offending source -- must converge too)
                         "alive": (rc == 0 and not want.startswith("FAILED")) or (rc != 0 and want.startswith("FAILED") and not case["fault"])}
    return out


def _sig(hist):
    """A rename keeps the mtime of the moved file. When it lands on a name whose intermediates were
    built earlier in the history, ninja finds them newer than the 'new' source and keeps them: that is
    one recorded finding, recognised from the history itself. Every other history is its own signature."""
    built = {"A", "B"}  # names built by the initial invocation
    present = {"A", "B"}
    for h in hist:
        ev = h["event"]
        if ev[0] == "rename" and ev[1] in present and ev[2] in built and not h["fault"]:
            return "stale-intermediate:rename-onto-built-name"
        if ev[0] == "add":
            present.add(ev[1])
        elif ev[0] == "remove":
            present.discard(ev[1])
        elif ev[0] == "rename" and ev[1] in present:
            present.discard(ev[1])
            present.add(ev[2])
        built |= present
    return canon([[h["event"], h["fault"]] for h in hist])


def execute(case):
    """replay of a history from the empty directory"""
    from vmc.drive import cli

    if case.get("kind") == "vf":
        return exec_vf(case)

    root = cli.mkscratch("c09r")
    try:
        return replay_history(case["history"], root)
    finally:
        shutil.rmtree(root, ignore_errors=True)


def initial(root):
    s0 = root / "states" / "s0"
    shutil.rmtree(s0, ignore_errors=True)
    (s0 / "src").mkdir(parents=True)
    srcs = {"A": "A0", "B": "B0"}
    for k, c in srcs.items():
        (s0 / "src" / FILES[k]).write_text(contents()[c])
    return s0, srcs, dict(DEFAULT_OPTS)


def replay_history(history, root):
    s, srcs, opts = initial(root)
    vs = []
    for i, h in enumerate(history):
        vs = transition({"root": str(root), "parent": str(s), "id": f"r{i}", "srcs": srcs, "opts": opts, "event": h["event"], "fault": h["fault"], "history": history[:i]})
        ch = [v for v in vs if "child" in v]
        if any(v["status"] == "violation" for v in vs) or not ch:
            return vs
        s, srcs, opts = Path(ch[0]["child"]["dir"]), ch[0]["child"]["srcs"], ch[0]["child"]["opts"]
    return vs


def run(report, tier, only=None):
    from vmc.drive import cli

    depth = 2 if tier == "quick" else 3
    fault_depth = 1 if tier == "quick" else 2
    root = cli.mkscratch("c09")
    try:
        s0, srcs0, opts0 = initial(root)
        # the first invocation: a clean build, the state every history starts from
        first = transition({"root": str(root), "parent": str(s0), "id": "s1", "srcs": srcs0, "opts": opts0, "event": ["touch", "A"], "fault": None, "history": []})
        for v in first:
            if v["status"] == "violation":
                raise HarnessError("the initial clean build does not equal itself: " + v["detail"])
        frontier = [first[-1]["child"]]
        keys = {frontier[0]["key"]}
        n_states, n_trans, n_faults = 1, 1, 0
        counter = [0]
        for level in range(1, depth + 1):
            cases = []
            for st in frontier:
                if not st["alive"]:
                    continue
                for ev in EVENTS:
                    counter[0] += 1
                    cases.append({"root": str(root), "parent": st["dir"], "id": f"n{counter[0]}", "srcs": st["srcs"], "opts": st["opts"], "event": ev, "fault": None, "history": st["history"]})
                if level <= fault_depth and st.get("buildable", True):
                    # faults ride on events after which (nearly) every step has to run again
                    fmt = st["opts"].get("color_format")
                    carriers = [["modify", "A"], ["add", "C"]] if level == 1 else [["modify", "A"]]
                    nodes = list(VECTOR_NODES if fmt != "cbdt" else ["write_glyphmap", "write_fea", "write_font"] + BITMAP_NODES)
                    for ev in carriers:
                        for node in nodes:
                            for mode in MODES:
                                counter[0] += 1
                                cases.append({"root": str(root), "parent": st["dir"], "id": f"n{counter[0]}", "srcs": st["srcs"], "opts": st["opts"], "event": ev, "fault": [node, mode], "history": st["history"]})
                        for f in DRIVER_FAULTS:
                            counter[0] += 1
                            cases.append({"root": str(root), "parent": st["dir"], "id": f"n{counter[0]}", "srcs": st["srcs"], "opts": st["opts"], "event": ev, "fault": f, "history": st["history"]})
                    if level == 1:
                        # the bitmap chain: switch to cbdt with a fault in each bitmap node
                        for node in BITMAP_NODES:
                            for mode in MODES:
                                counter[0] += 1
                                cases.append({"root": str(root), "parent": st["dir"], "id": f"n{counter[0]}", "srcs": st["srcs"], "opts": st["opts"], "event": ["opt", "color_format", "cbdt"], "fault": [node, mode], "history": st["history"]})
                if level == fault_depth + 1 and st["opts"].get("color_format") == "cbdt" and len(st["history"]) == level:
                    # a bitmap build directory that already holds outputs of an earlier invocation: every bitmap
                    # node fails once more after a source edit (stale outputs are what a swallowed failure would use)
                    for node in BITMAP_NODES:
                        for mode in MODES:
                            counter[0] += 1
                            cases.append({"root": str(root), "parent": st["dir"], "id": f"n{counter[0]}", "srcs": st["srcs"], "opts": st["opts"], "event": ["modify", "A"], "fault": [node, mode], "history": st["history"]})
                    # ... and after an option change that re-runs a middle step of the chain only (the bitmaps are not rendered again):
                    # what the later steps find is decided by file times alone
                    for node in ("pngquant", "zopfli"):
                        for mode in MODES:
                            counter[0] += 1
                            cases.append({"root": str(root), "parent": st["dir"], "id": f"n{counter[0]}", "srcs": st["srcs"], "opts": st["opts"], "event": ["opt", "pngquant_flags", PQ_STRICT], "fault": [node, mode], "history": st["history"]})
            results = pool.run_cases(transition, cases, timeout=1500, seed=report.seed, jobs=8, chunksize=1)
            nxt = []
            for c, vs in zip(cases, results):
                for v in vs:
                    if v["status"] == "harness-error":
                        raise HarnessError(v["detail"])
                    report.status[v["status"]] += 1
                    if v.get("fp"):
                        report.fps[v["fp"]] += 1
                    if v["status"] == "violation":
                        hist = c["history"] + [{"event": c["event"], "fault": c["fault"]}]
                        report.add_violation(v["clause"], {"kind": "history", "history": hist}, v["detail"], v.get("sig") or _sig(hist))
                ch = [v["child"] for v in vs if "child" in v]
                if not ch:
                    continue
                n_trans += 1 + (2 if c["fault"] else 0)
                n_faults += 1 if c["fault"] else 0
                keys.add(ch[0]["key"])
                n_states += 1
                if level < depth and not c["fault"]:
                    nxt.append(ch[0])
                else:
                    shutil.rmtree(ch[0]["dir"], ignore_errors=True)
                report.evaluations += 1
            for st in frontier:
                if st["dir"] != str(root / "states" / "s1"):
                    shutil.rmtree(st["dir"], ignore_errors=True)
            frontier = nxt
        # variable-font histories: remove a glyph from every master, put it back, start small and grow
        vf_cases = [{"kind": "vf", "sets": s_} for s_ in ([[0, 1, 2], [0, 1]], [[0, 1, 2], [0, 1], [0, 1, 2]], [[0, 1], [0, 1, 2]], [[0, 1, 2], [1, 2]])]
        # ... and histories that edit one source of the non-default master only (and take the edit back)
        vf_cases += [{"kind": "vf", "sets": [[0, 1, 2]] * len(e_), "edits": e_} for e_ in ([False, True], [True, False], [False, True, False])]
        if tier == "quick":
            vf_cases = vf_cases[:2] + vf_cases[4:5]
        for c_, vs in zip(vf_cases, pool.run_cases(exec_vf, vf_cases, timeout=1800, seed=report.seed, jobs=4, chunksize=1)):
            n_states += 1
            n_trans += len(c_["sets"]) + 1
            for v in vs:
                if v["status"] == "harness-error":
                    raise HarnessError(v["detail"])
                report.status[v["status"]] += 1
                if v.get("fp"):
                    report.fps[v["fp"]] += 1
                if v["status"] == "violation":
                    report.add_violation(v["clause"], c_, v["detail"])
            report.evaluations += 1
        report.extra["variable_font_histories"] = len(vf_cases)
        report.states += n_states
        report.transitions += n_trans
        report.executions += n_trans
        report.extra["distinct_state_keys"] = len(keys)
        report.extra["faulted_invocations"] = n_faults
        report.extra["history_depth"] = depth
        report.extra["fixed_workspace_path"] = namespaces_work()
        report.extra["fault_depth"] = fault_depth
        report.sample({"kind": "history", "history": [{"event": ["modify", "A"], "fault": ["write_font", "truncate-kill"]}]})
        report.sample({"kind": "history", "history": [{"event": ["add", "C"], "fault": None}, {"event": ["rename", "A", "B"], "fault": None}]})
    finally:
        shutil.rmtree(root, ignore_errors=True)
    report.rule = (
        "E3: BFS from a clean build of two sources over histories of <= %d events drawn from {add, remove, modify, touch, rename (to a new name / over an "
        "existing source), option changes (format glyf_colr_1/picosvg/cbdt, metrics, reuse_tolerance, clip_to_viewbox, clipbox_quantization, "
        "bitmap_resolution, use_pngquant)}, each followed by one real `nanoemoji` invocation on a copy of the snapshot; at depth <= %d every node class of "
        "the ninja graph x {exit before writing, truncated output + SIGKILL of the step, the same + SIGKILL of ninja and driver} and two driver crash points "
        "are injected; invariants in every state: a failed step fails the invocation; one further fault-free invocation gives the bytes of a clean build of "
        "the final inputs; distinct = event kind / fault kind" % (depth, fault_depth)
    )
    report.assumptions += ["states are not merged (every history is executed), so no abstraction argument is needed",
                           "faults are injected through PYTHONPATH sitecustomize (Python steps) and a PATH shim (resvg); pngquant is faulted at its Python wrapper"]
