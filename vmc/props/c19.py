"""C19 - Congruent copies of a shape are stored once (full product, real builds)."""
import itertools

from vmc.core import listing
from vmc.core.listing import ok, bad
from vmc.oracles import aff, flatten, shaper, snapgrid
from vmc.oracles.scene import Glyph, Group, Shape, Solid, place
from vmc.props import common

# outlines in generic position w.r.t. the matcher's snap grid (margin >= 0.12 steps for
# steps 0.01 and 0.05, see vmc/oracles/snapgrid.py), plus the boundary L-shape
OUTLINES = {
    "polyL": "M10,10 L53,10 L53,27 L25,26 L25,60 L10,60 Z",
    "tri": "M5,5 L45,12 L20,40 Z",
    "quad": "M8,30 Q21,2 53,13 Q42,45 8,30 Z",
    "blob": "M10,30 C10,10 40,5 50,20 C60,35 40,55 30,50 C16,47 10,45 10,30 Z",
    "oval": "M10,25 C10,15 20,6 38,8 C48,8 61,15 63,25 C63,35 50,42 35,42 C20,42 10,35 10,25 Z",
    "ring": "M10,10 L52,10 L54,39 L12,46 Z M17,18 L19,38 L40,38 L40,18 Z",
    "ell_boundary": "M10,10 L50,10 L50,25 L25,25 L25,60 L10,60 Z",  # edge ratio 0.625: on the snap grid boundary
}
TRANSLATIONS = [[0, 0], [30, 20], [-7, 13], [3.5, 41.25], [55, -30]]
ROTATIONS = [0, 90, 180, 270, 45, 30, 60, 1, 0.1, 123.4]
MIRRORS = ["none", "x", "y"]
VBS = [100, 24, 128, 1000]
WHERE = ["other", "same"]
TOLS = [0.1, 0.5]
FMTS = ["glyf_colr_1", "glyf_colr_0", "picosvg"]
MIN_MARGIN = 0.1


def scene_for(case):
    k = case["vb"] / 100.0
    d0 = OUTLINES[case["outline"]]
    S = aff.sc(k)
    m = aff.I
    if case["mirror"] == "x":
        m = aff.around(aff.sc(-1, 1), 30, 30)
    elif case["mirror"] == "y":
        m = aff.around(aff.sc(1, -1), 30, 30)
    m = aff.mul(aff.around(aff.rot(case["rot"]), 30, 30), m)
    m = aff.mul(aff.tr(*case["t"]), m)
    donor = Shape(place(d0, S), Solid("red"), label="donor")
    copy = Shape(place(d0, aff.mul(S, m)), Solid("blue"), label="copy")
    filler = Shape(place("M70,70 L95,72 L90,96 L66,90 Z", S), Solid("green"), label="filler")
    filler2 = Shape(place("M60,5 L97,9 L81,33 Z", S), Solid("yellow"), label="filler2")
    vb = (0, 0, case["vb"], case["vb"])
    pre = []
    if case.get("prelude") == "tiny_far":
        # an earlier shape with the donor's normalised outline, 40 times smaller and far from the origin: the donor cannot
        # be placed from it (the translation leaves the 16.16 range), so the donor has to become the outline later copies use
        pre = [Shape(place(d0, aff.mul(S, aff.mul(aff.tr(94, 93), aff.sc(1 / 40))), nd=6), Solid("orange"), label="tiny-first")]
    n = len(pre)
    first = [donor, filler]
    if case.get("grouped") == "donor":  # the first occurrence sits inside a translucent group
        first = [Group(0.5, [donor, filler])]
    if case["where"] == "same":
        return [Glyph((0xE000,), vb, pre + first + [copy])], (0, n, 0, n + 2)
    vb_b = vb
    if case.get("vb2") == "wide":  # the other glyph has a wider viewBox of the same height (same scale, another placement in the em)
        vb_b = (0, 0, case["vb"] * 1.5, case["vb"])
    elif case.get("vb2") == "offset":
        vb_b = (-0.1 * case["vb"], 0.07 * case["vb"], case["vb"], case["vb"])
    return [Glyph((0xE000,), vb, pre + first), Glyph((0xE001,), vb_b, [filler2, copy])], (0, n, 1, 1)


def _resolve(font, fmt, name):
    """outline glyph a COLRv0 layer finally draws (flatten composites)"""
    if fmt == "glyf_colr_0" and "glyf" in font:
        g = font["glyf"][name]
        if g.isComposite() and len(g.components) == 1:
            return g.components[0].glyphName
    return name


def execute(case):
    from vmc.drive import inproc

    if case.get("after"):
        # an earlier build in the same process (another tolerance, the donor alone): a build's result must not depend on it
        first = dict(case, tol=case["after"], where="same")
        g1, _ = scene_for(first)
        try:
            inproc.build_direct([(g.cps, g.svg()) for g in [type(g1[0])(g1[0].cps, g1[0].vb, g1[0].nodes[:1])]],
                                {"color_format": case["fmt"], "reuse_tolerance": case["after"], "output_file": "x.ttf"})
        except Exception as e:
            return [bad("C19.build", f"first build of the sequence: {type(e).__name__}: {e}")]
    glyphs, (gi_d, li_d, gi_c, li_c) = scene_for(case)
    fmt = case["fmt"]
    over = {"color_format": fmt, "reuse_tolerance": case["tol"], "output_file": "x.ttf"}
    try:
        cfg, font, data = inproc.build_direct([(g.cps, g.svg()) for g in glyphs], over)
    except Exception as e:
        return [bad("C19.build", f"{type(e).__name__}: {e}")]
    ids = []
    pics = {}
    for gi, li in ((gi_d, li_d), (gi_c, li_c)):
        g = glyphs[gi]
        name = shaper.shape(font, g.cps)[0]
        if fmt == "picosvg":
            from vmc.oracles.svg_eval import SvgPicture

            gid = font.getGlyphID(name)
            docs = [i for i, d in enumerate(common.svg_docs(font)) if d[1] <= gid <= d[2]]
            if len(docs) != 1:
                return [bad("C19.structure", f"{len(docs)} documents cover gid {gid}")]
            if docs[0] not in pics:
                pics[docs[0]] = SvgPicture(common.svg_docs(font)[docs[0]][0], fg=common.FG)
            leaves = flatten.svg_leaves(pics[docs[0]], f"glyph{gid}")
            if len(leaves) <= li:
                return [bad("C19.structure", f"glyph{gid} has {len(leaves)} leaves")]
            ids.append((docs[0], leaves[li].name))
        else:
            leaves = flatten.colr_leaves(font, name, common.FG)
            if len(leaves) <= li:
                return [bad("C19.structure", f"{name} has {len(leaves)} leaves")]
            ids.append(_resolve(font, fmt, leaves[li].name))
    shared = ids[0] == ids[1] and (fmt != "picosvg" or ids[0][1] is not None)
    margin = min(snapgrid.margin(OUTLINES[case["outline"]], t / 10) for t in TOLS + ([case["tol"]] if case["tol"] > 0.5 else []))
    if case["tol"] == -1:
        if shared:
            return [bad("C19.noreuse-separate", f"reuse disabled but donor and copy share {ids[0]}")]
        return [ok("C19.noreuse-separate", "separate")]
    if not shared:
        sig = f"snap-boundary:{case['outline']}" if margin < 0.02 else None
        if sig is None and case["mirror"] != "none" and _endpoints_collinear(OUTLINES[case["outline"]]):
            sig = f"mirror-collinear-endpoints:{case['outline']}"
        return [bad("C19.stored-once", f"copy not drawn from the donor's outline: donor={ids[0]} copy={ids[1]} (snap margin of the outline {margin:.3f} steps)", sig=sig)]
    return [ok("C19.stored-once", f"{fmt}:shared")]


def _endpoints_collinear(d):
    """all segment end points of the outline lie on one line (e.g. a two-segment leaf):
    computed from the scene data"""
    vecs = [v[-1] for _, v in snapgrid._rel_vectors(d)]
    first = vecs[0]
    return all(abs(first[0] * v[1] - first[1] * v[0]) < 1e-9 for v in vecs)


def cases(tier):
    out = []
    if tier == "quick":
        prod = itertools.chain(
            itertools.product(list(OUTLINES), TRANSLATIONS[:3], [0, 90, 30, 123.4], MIRRORS, [100, 24], WHERE, [0.1], FMTS),
            # a slice with a large viewBox (long edges, transforms that need many decimals) under generic rotations
            itertools.product(list(OUTLINES), TRANSLATIONS[:1], [30, 123.4, 1], MIRRORS, [1000], WHERE, [0.1], FMTS))
    else:
        prod = itertools.product(list(OUTLINES), TRANSLATIONS, ROTATIONS, MIRRORS, VBS, WHERE, TOLS, FMTS)
    # larger-than-default tolerances of a whole unit and more, on plain translations (both tiers)
    # (outlines that sit on the snap grid of such a tolerance are left out, like everywhere else in this alphabet)
    big = [(o, tol) for o in OUTLINES for tol in (1.0, 2.0) if snapgrid.margin(OUTLINES[o], tol / 10) >= 0.02]
    prod = itertools.chain(prod, ((o, t, 0, "none", vb, w, tol, fmt) for o, tol in big for t in TRANSLATIONS[:2] for vb in (1000, 100) for w in WHERE for fmt in FMTS))
    for o, t, r, mi, vb, w, tol, fmt in prod:
        out.append({"outline": o, "t": t, "rot": r, "mirror": mi, "vb": vb, "where": w, "tol": tol, "fmt": fmt})
        base = out[-1]
        if tier != "quick" or (mi == "none" and vb == 100):
            out.append(dict(base, prelude="tiny_far"))
        if tier != "quick" or (mi == "none" and vb == 100):
            out.append(dict(base, grouped="donor"))
        if w == "other" and (tier != "quick" or (mi == "none" and vb == 100)):
            out.append(dict(base, vb2="wide"))
            out.append(dict(base, vb2="offset"))
    for o in OUTLINES:
        for w in WHERE:
            for fmt in FMTS:
                out.append({"outline": o, "t": [30, 20], "rot": 30, "mirror": "none", "vb": 100, "where": w, "tol": -1, "fmt": fmt})
                # sequences of two builds in one process with different tolerances
                out.append({"outline": o, "t": [30, 20], "rot": 30, "mirror": "none", "vb": 100, "where": w, "tol": 0.5, "fmt": fmt, "after": 0.1})
                out.append({"outline": o, "t": [30, 20], "rot": 30, "mirror": "none", "vb": 100, "where": w, "tol": 0.1, "fmt": fmt, "after": 0.5})
    return out


def run(report, tier, only=None):
    from vmc.core.report import HarnessError

    for name, d in OUTLINES.items():
        m = min(snapgrid.margin(d, t / 10) for t in TOLS)
        if name != "ell_boundary" and m < MIN_MARGIN:
            raise HarnessError(f"outline {name} is not in generic position (margin {m:.3f})")
    cs = cases(tier)
    listing.run(report, cs, execute, timeout=120, transitions_per_case=1)
    report.extra["outline_snap_margins_steps"] = {n: round(min(snapgrid.margin(d, t / 10) for t in TOLS), 3) for n, d in OUTLINES.items()}
    report.rule = (
        "full product outline x translation x rotation x mirror x viewBox size x {same glyph, other glyph} x tolerance x {no prelude, an earlier tiny far-away shape with the same normalised outline from which the donor cannot be placed} x {the other glyph has the same / a wider / a shifted viewBox} x {the first occurrence at top level / inside a translucent group} x "
        "{glyf_colr_0, glyf_colr_1, picosvg} (quick: a sub-product), each built with the real code; donor and copy must resolve "
        "to one outline glyph / one <path> (after flattening composites and <use>); with tolerance -1 they must be separate; "
        "distinct = format x shared/separate"
    )
    report.assumptions += ["outlines are in generic position w.r.t. picosvg's snap grid (checked from the scene data); the boundary L-shape is kept as an explicit known-finding witness"]
