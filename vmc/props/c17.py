"""C17 - Ambiguous or unusable input stops the build instead of yielding a wrong glyph
(fault enumeration on the real CLI + in-process for all 13 formats)."""
import shutil
from pathlib import Path

from vmc.core import listing
from vmc.core.listing import ok, bad

GOOD = '<svg xmlns="http://www.w3.org/2000/svg" viewBox="0 0 100 100"><path d="M10,10 L{x},10 L{x},90 L10,90 Z" fill="{c}"/></svg>'


def good(i):
    return GOOD.format(x=40 + 10 * i, c=["red", "blue", "green"][i % 3])


def svg(body, vb='viewBox="0 0 100 100"', defs=""):
    return f'<svg xmlns="http://www.w3.org/2000/svg" {vb}><defs>{defs}</defs>{body}</svg>'


SHAPE = '<path d="M20,20 L80,20 L80,80 L20,80 Z" fill="{f}"/>'
# class -> (description, {file stem suffix: text} generator, formats it applies to)
VECTOR = ["glyf_colr_1", "glyf_colr_0", "picosvg"]
ALL5 = VECTOR + ["untouchedsvg", "cbdt"]
CLASSES = {
    "same-codepoints": ("two sources with the same codepoint sequence", ALL5),
    "same-glyph-name": ("two sequences with the same glyph name ('g'+U+1F600 vs U+1F600)", ALL5),
    "unparsable-xml": ("a source that is not well-formed XML", ALL5),
    "empty-file": ("an empty source file", ALL5),
    "no-viewbox": ("a source without a viewBox", VECTOR),  # untouchedsvg: C02 only speaks of sources with a viewBox
    "missing-gradient": ("fill=url(#missing)", VECTOR),
    "pattern-fill": ("a <pattern> fill", VECTOR),
    "bad-colour": ("an invalid colour string", VECTOR),
    "bad-colour-hex10": ("a hex colour with ten digits (#FF8000FF00)", VECTOR),
    "bad-colour-hex5": ("a hex colour with five digits (#12345)", VECTOR),
    "bad-colour-nonhex": ("a hex colour with non-hex digits (#GG0000)", VECTOR),
    "bad-stop-colour": ("an invalid stop-color in a gradient", VECTOR),
    "bad-spread": ("an unknown spreadMethod", VECTOR),
    "palette-conflict": ("two colours declared for one palette index", ["glyf_colr_1", "glyf_colr_0"]),
    # in COLRv0 alpha lives in the palette entry: the same RGB at two opacities are two colours for one index
    "palette-conflict-alpha": ("one palette index declared with the same RGB at two opacities (COLRv0)", ["glyf_colr_0"]),
    "palette-conflict-two-glyphs": ("two colours declared for one palette index, in two different sources", ["glyf_colr_1", "glyf_colr_0"]),
    "no-codepoints": ("a file name without codepoints", ALL5),
    "bitmap-too-big": ("bitmap side > 255 in a cbdt build", ["cbdt"]),
}


def defective(cls):
    """-> list of (file stem override or None, text); more than one entry = the defect is the pair"""
    if cls == "same-codepoints":
        return [("emoji_u{cp}", good(2)), ("{cp}", SHAPE_DOC("purple"))]
    if cls == "same-glyph-name":
        return [("emoji_u{cp}", good(2)), ("emoji_u0067_{cp}", SHAPE_DOC("purple"))]
    if cls == "unparsable-xml":
        return [(None, '<svg xmlns="http://www.w3.org/2000/svg" viewBox="0 0 100 100"><path d="M0,0 L1,1 Z"')]
    if cls == "empty-file":
        return [(None, "")]
    if cls == "no-viewbox":
        return [(None, svg(SHAPE.format(f="red"), vb=""))]
    if cls == "missing-gradient":
        return [(None, svg(SHAPE.format(f="url(#missing)")))]
    if cls == "pattern-fill":
        return [(None, svg(SHAPE.format(f="url(#p)"), defs='<pattern id="p" width="10" height="10" patternUnits="userSpaceOnUse"><path d="M0,0 L5,5 Z"/></pattern>'))]
    if cls == "bad-colour":
        return [(None, svg(SHAPE.format(f="notacolour")))]
    if cls in ("bad-colour-hex10", "bad-colour-hex5", "bad-colour-nonhex"):
        return [(None, svg(SHAPE.format(f={"bad-colour-hex10": "#FF8000FF00", "bad-colour-hex5": "#12345", "bad-colour-nonhex": "#GG0000"}[cls])))]
    if cls == "bad-stop-colour":
        return [(None, svg(SHAPE.format(f="url(#g)"), defs='<linearGradient id="g"><stop offset="0" stop-color="#FF8000FF00"/><stop offset="1" stop-color="blue"/></linearGradient>'))]
    if cls == "bad-spread":
        return [(None, svg(SHAPE.format(f="url(#g)"), defs='<linearGradient id="g" spreadMethod="mirror"><stop offset="0" stop-color="red"/><stop offset="1" stop-color="blue"/></linearGradient>'))]
    if cls == "palette-conflict":
        return [(None, svg(SHAPE.format(f="var(--color1, red)") + '<path d="M30,30 L60,30 L60,60 Z" fill="var(--color1, blue)"/>'))]
    if cls == "palette-conflict-alpha":
        return [(None, svg(SHAPE.format(f="var(--color1, red)") + '<path d="M30,30 L60,30 L60,60 Z" fill="var(--color1, red)" opacity="0.5"/>'))]
    if cls == "palette-conflict-two-glyphs":
        return [("emoji_u{cp}", svg(SHAPE.format(f="var(--color1, red)"))), ("emoji_u{cp}_fe0f", svg(SHAPE.format(f="var(--color1, blue)")))]
    if cls == "no-codepoints":
        return [("logo_xyz", good(2))]
    if cls == "bitmap-too-big":
        return [(None, good(2))]
    raise KeyError(cls)


def SHAPE_DOC(c):
    return svg(SHAPE.format(f=c))


POSITIONS = {"alone": (0, 0), "first-of-2": (1, 0), "last-of-2": (1, 1), "first-of-3": (2, 0), "middle-of-3": (2, 1), "last-of-3": (2, 2)}
# file names sort as their codepoints: valid sources around the defective one
SLOTS = {0: ["1f605"], 1: ["1f601", "1f609"], 2: ["1f601", "1f605", "1f609"]}


def layout(cls, position):
    """-> [(file name, text)] in argument order, the defective source at the requested place"""
    n_valid, idx = POSITIONS[position]
    cps = {0: ["1f605"], 1: ["1f601", "1f609"], 2: ["1f601", "1f605", "1f609"]}[n_valid]
    # choose the codepoint of the defective source so that it sorts at idx among the valid ones
    all_slots = ["1f600", "1f604", "1f60a"] if n_valid == 2 else (["1f600", "1f60a"] if n_valid == 1 else ["1f600"])
    valid_cps = {0: [], 1: ["1f605"], 2: ["1f602", "1f607"]}[n_valid]
    dcp = all_slots[idx]
    files = [(f"emoji_u{c}.svg", good(i)) for i, c in enumerate(valid_cps)]
    d = []
    for stem, text in defective(cls):
        name = (stem or "emoji_u{cp}").format(cp=dcp) + ".svg"
        d.append((name, text))
    out = files[:idx] + d + files[idx:]
    return out


def exec_cli(case):
    from vmc.drive import cli

    cls, fmt, pos = case["cls"], case["fmt"], case["position"]
    files = layout(cls, pos)
    w = cli.mkscratch("c17")
    try:
        paths = cli.write_sources(w / "src", files)
        flags = [f"--color_format={fmt}", "--output_file=Font.ttf"]
        if cls == "bitmap-too-big":
            flags.append("--bitmap_resolution=300")
        if fmt == "cbdt":
            flags += ["--nouse_pngquant", "--nouse_zopflipng"]
        if case.get("noclip"):
            flags.append("--noclip_to_viewbox")  # the clipping step is one of the places that refuse a bad source: the others must too
        r = cli.nanoemoji(w, flags + [str(p) for p in paths])
        out = w / "build" / "Font.ttf"
        if r.returncode == 0:
            what = f"exit 0 for {CLASSES[cls][0]} ({pos}, {fmt}{', --noclip_to_viewbox' if case.get('noclip') else ''})"
            if out.exists():
                from fontTools.ttLib import TTFont

                f = TTFont(out)
                what += f"; font written with cmap {sorted(hex(c) for c in f.getBestCmap())} and {len(f.getGlyphOrder())} glyphs"
            sig = f"{cls}-accepted" if cls in ("same-codepoints", "same-glyph-name") else None
            return [bad(f"C17.{cls}-stops-build", what, sig=sig)]
        if out.exists():
            return [bad("C17.no-fresh-font", f"exit {r.returncode} but {out.name} was written ({cls}, {pos}, {fmt})")]
        return [ok("C17.rejected", f"{cls}:{fmt}")]
    finally:
        shutil.rmtree(w, ignore_errors=True)


def exec_masters(case):
    """multi-master configuration whose masters disagree on their source sets / have duplicate names"""
    from vmc.drive import cli
    import toml

    w = cli.mkscratch("c17m")
    try:
        a = cli.write_sources(w / "thin", [("emoji_u1f601.svg", good(0)), ("emoji_u1f605.svg", good(1))])
        if case["cls"] == "defect-in-one-master":
            # the usual <master>/svg/*.svg layout: same file names in identically named directories under different roots;
            # one master's copy of a source is not well-formed XML
            bad_text = '<svg xmlns="http://www.w3.org/2000/svg" viewBox="0 0 100 100"><path d="M0,0 L1,1 Z"'
            shutil.rmtree(w / "thin")
            which = case["order"]  # the master whose source is broken
            a = cli.write_sources(w / "thin" / "svg", [("emoji_u1f601.svg", good(0)), ("emoji_u1f605.svg", bad_text if which == 0 else good(1))])
            b = cli.write_sources(w / "bold" / "svg", [("emoji_u1f601.svg", good(0)), ("emoji_u1f605.svg", bad_text if which == 1 else good(1))])
        elif case["cls"] == "masters-differ":
            b = cli.write_sources(w / "bold", [("emoji_u1f601.svg", good(0)), ("emoji_u1f609.svg", good(1))])
        elif case["cls"] == "masters-superset":  # the other master has every source of this one, and one more
            b = cli.write_sources(w / "bold", [("emoji_u1f601.svg", good(0)), ("emoji_u1f605.svg", good(1)), ("emoji_u1f609.svg", good(0))])
        elif case["cls"] == "masters-subset":
            b = cli.write_sources(w / "bold", [("emoji_u1f601.svg", good(0))])
        else:  # duplicate file names inside one master
            b = cli.write_sources(w / "bold", [("emoji_u1f601.svg", good(0)), ("emoji_u1f605.svg", good(1))])
            extra = cli.write_sources(w / "bold2", [("emoji_u1f605.svg", good(2))])
            b = b + extra
        cfg = {"color_format": "glyf_colr_1", "output_file": "Font.ttf",
               "axis": {"wght": {"name": "Weight", "default": 400}},
               "master": {"thin": {"style_name": "Thin", "position": {"wght": 100 if case["order"] == 0 or case["cls"] == "defect-in-one-master" else 400}, "srcs": [str(p) for p in a]},
                          "bold": {"style_name": "Bold", "position": {"wght": 400 if case["order"] == 0 or case["cls"] == "defect-in-one-master" else 100}, "srcs": [str(p) for p in b]}}}
        (w / "c.toml").write_text(toml.dumps(cfg))
        r = cli.nanoemoji(w, [w / "c.toml"])
        out = w / "build" / "Font.ttf"
        if r.returncode == 0 or out.exists():
            return [bad(f"C17.{case['cls']}-stops-build", f"exit {r.returncode}, font written: {out.exists()}")]
        return [ok("C17.rejected", f"{case['cls']}")]
    finally:
        shutil.rmtree(w, ignore_errors=True)


def exec_inproc(case):
    from vmc.drive import inproc
    from vmc.gen import pngs

    cls, fmt = case["cls"], case["fmt"]
    d = defective(cls)
    glyphs = [((0x1F601,), good(0))]
    bitmaps = None
    if fmt in ("cbdt", "sbix"):
        from nanoemoji.png import PNG

        side = 300 if cls == "bitmap-too-big" else 64
        glyphs = [((0x1F601,), None), ((0x1F605,), None)]
        bitmaps = [PNG(pngs.png(64, 64, 0)), PNG(pngs.png(side, side, 1))]
    else:
        glyphs.insert(case["idx"], ((0x1F605,), d[0][1]))
    over = {"color_format": fmt, "output_file": "x.otf" if fmt.startswith("cff") else "x.ttf"}
    if fmt in ("cbdt", "sbix"):
        over["bitmap_resolution"] = 64
    try:
        inproc.build_direct(glyphs, over, bitmaps=bitmaps)
    except BaseException as e:
        if isinstance(e, (KeyboardInterrupt, SystemExit)) and not isinstance(e, SystemExit):
            raise
        return [ok("C17.rejected", f"inproc:{cls}:{type(e).__name__}")]
    return [bad(f"C17.{cls}-stops-build", f"_generate_color_font accepts {CLASSES[cls][0]} in a {fmt} build")]


def execute(case):
    if case["kind"] == "cli":
        return exec_cli(case)
    if case["kind"] == "masters":
        return exec_masters(case)
    return exec_inproc(case)


INPROC = {"missing-gradient": "picosvg-like", "pattern-fill": "picosvg-like", "bad-colour": "picosvg-like", "bad-colour-hex10": "picosvg-like", "bad-colour-hex5": "picosvg-like", "bad-colour-nonhex": "picosvg-like", "bad-stop-colour": "picosvg-like", "bad-spread": "picosvg-like",
          "palette-conflict": "colr", "bitmap-too-big": "cbdt"}


def run(report, tier, only=None):
    from vmc.drive.conformance import ALL_FORMATS

    positions = list(POSITIONS) if tier == "thorough" else ["alone", "first-of-3", "middle-of-3", "last-of-3"]
    cases = []
    for cls, (desc, fmts) in CLASSES.items():
        for fmt in fmts:
            for pos in positions:
                cases.append({"kind": "cli", "cls": cls, "fmt": fmt, "position": pos})
                if fmts is VECTOR and (tier == "thorough" or pos in ("alone", "middle-of-3")):
                    cases.append({"kind": "cli", "cls": cls, "fmt": fmt, "position": pos, "noclip": True})
    for cls in ("masters-differ", "masters-superset", "masters-subset", "duplicate-names-in-master", "defect-in-one-master"):
        for order in (0, 1):
            cases.append({"kind": "masters", "cls": cls, "order": order})
    if only in (None, "cli"):
        listing.run(report, cases, execute, timeout=600, jobs=8)
    if only in (None, "inproc"):
        cases = []
        for cls, fam in INPROC.items():
            for fmt in ALL_FORMATS:
                if fam == "colr" and "colr" not in fmt:
                    continue
                if fam == "cbdt" and fmt != "cbdt":
                    continue
                if fam == "picosvg-like" and (fmt.startswith("untouched") or fmt in ("cbdt", "sbix")):
                    continue
                for idx in (0, 1):
                    cases.append({"kind": "inproc", "cls": cls, "fmt": fmt, "idx": idx})
        listing.run(report, cases, execute, timeout=120)
    report.rule = (
        "fault enumeration: 18 defect classes x position of the defective source among 0-2 valid ones (quick: alone + the three positions among two "
        "valid; thorough: all six) x the colour-format families the class applies to (content defects also with --noclip_to_viewbox), on the real `nanoemoji` command in a fresh directory "
        "(must exit non-zero and leave no Font.ttf); two multi-master defect classes x master order; six classes in-process x all applicable formats "
        "of the 13; distinct = class x format"
    )
    report.assumptions += ["conflicting palette indices are only demanded to stop COLR builds (the statement says 'in a COLR build')",
                           "fills/colours/viewBox defects are not demanded of untouchedsvg and bitmap builds, which do not interpret the SVG content"]
