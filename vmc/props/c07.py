"""C07 - Every emitted font is structurally valid for its consumers."""
from vmc.core import lattice
from vmc.core.listing import ok, bad
from vmc.gen import scenes, pngs
from vmc.oracles import structure
from vmc.oracles import scene as sc

FORMATS = ["glyf_colr_1", "glyf", "glyf_colr_0", "cff_colr_0", "cff_colr_1", "cff2_colr_0", "cff2_colr_1",
           "picosvg", "picosvgz", "untouchedsvg", "untouchedsvgz", "cbdt", "sbix"]
KEEP = ("vb_origin", "vb_size", "vb_aspect", "metrics", "width", "user", "tol", "clipq", "keep", "outline", "stack", "place",
        "donor_paint", "copy_paint", "grp", "seqlen", "nglyphs", "where", "lin_vec", "rad_geom", "twin", "shared_grad", "grad_twice", "vb_b", "clone")
DIMS = {"fmt": FORMATS}
DIMS.update({k: scenes.DIMS[k] for k in KEEP})
DIMS["pretty"] = [False, True]
DIMS["bitmap_h"] = [128, 32, 127]
DIMS["ext"] = ["usual", "other"]  # the outline flavour follows the output file's extension, not the colour format
FULL = dict(scenes.DIMS)
FULL.update(DIMS)
K = {"quick": 2, "thorough": 2}


def relevant(dev):
    if not scenes.relevant(dev):
        return False
    fmt = dev.get("fmt", "glyf_colr_1")
    bitmap = fmt in ("cbdt", "sbix")
    if "bitmap_h" in dev and not bitmap:
        return False
    if bitmap and any(k in dev for k in ("tol", "clipq", "outline", "stack", "place", "donor_paint", "copy_paint", "grp", "where", "lin_vec", "rad_geom", "user", "pretty", "vb_origin", "twin", "shared_grad")):
        return False  # bitmap builds never look at the vector content
    if "pretty" in dev and "svg" not in fmt:
        return False
    if "clipq" in dev and not fmt.endswith("colr_1"):
        return False
    return True


def build(a):
    from vmc.drive import inproc
    from nanoemoji.png import PNG

    glyphs, over = scenes.mk(a)
    fmt = a["fmt"]
    over["pretty_print"] = a["pretty"]
    over["output_file"] = "x.otf" if fmt.startswith("cff") != (a.get("ext") == "other") else "x.ttf"
    if fmt in ("cbdt", "sbix"):
        h = a["bitmap_h"]
        over["bitmap_resolution"] = h
        bitmaps = []
        for i, g in enumerate(glyphs):
            w = max(1, round(h * g.vb[2] / g.vb[3]))
            bitmaps.append(PNG(pngs.png(w, h, i)))
        return glyphs, inproc.build_direct([(g.cps, None) for g in glyphs], over, bitmaps=bitmaps)
    raw = fmt.startswith("untouched")
    return glyphs, inproc.build_direct([(g.cps, sc.raw_svg(g) if raw else g.svg()) for g in glyphs], over)


def exec_nameset(case):
    """fonts whose glyph names are prefixes of one another / share shapes across glyphs,
    built through the conformance-bound pipeline with both file-naming conventions"""
    from vmc.props import c04

    seqs, idx, collision, res = c04.build_set(case)
    if isinstance(res, Exception):
        return [{"status": "rejected", "clause": "C07.build", "fp": "rejected:" + type(res).__name__}]
    cfg, font, data = res
    problems = structure.check(data, want_names=case["keep"])
    if problems:
        return [bad(c, d, sig="g-prefix-collision" if collision else None) for c, d in problems[:6]]
    return [ok("C07.valid", f"nameset:{case['fmt']}")]


def exec_notdef(case):
    """a source that supplies the artwork of an *existing* glyph (a coloured .notdef, given
    through the glyph map) at any position among ordinary sources"""
    from vmc.drive import inproc
    from vmc.props import c04

    n = case["n"]
    pos = case["pos"]
    glyphs = [((0xE000 + i,), c04.art(i)) for i in range(n)]
    names = [None] * n
    glyphs.insert(pos, ((), c04.art(7)))
    names.insert(pos, ".notdef")
    from nanoemoji.glyph import glyph_name

    names = [nm or glyph_name(g[0]) for nm, g in zip(names, glyphs)]
    fmt = case["fmt"]
    bitmaps = None
    over = {"color_format": fmt, "output_file": "x.otf" if fmt.startswith("cff") else "x.ttf"}
    if fmt in ("cbdt", "sbix"):
        from nanoemoji.png import PNG

        bitmaps = [PNG(pngs.png(64, 64, i)) for i in range(len(glyphs))]
        glyphs = [(cps, None) for cps, _ in glyphs]
        over["bitmap_resolution"] = 64
    try:
        cfg, font, data = inproc.build_direct(glyphs, over, names=names, bitmaps=bitmaps)
    except Exception as e:
        return [bad("C07.build", f"coloured .notdef at position {pos}: {type(e).__name__}: {e}")]
    want = None
    if bitmaps:
        # the colour glyphs: .notdef and the glyph of every source (glyph ids 0, 2, 3, ...: the space glyph sits between)
        from vmc.oracles import shaper

        want = {0} | {font.getGlyphID(shaper.shape(font, cps)[0]) for cps, _ in glyphs if cps}
    problems = structure.check(data, want_names=False, bitmap_glyphs=want)
    if problems:
        return [bad(c, d) for c, d in problems[:6]]
    return [ok("C07.valid", f"notdef:{fmt}")]


def execute(dev):
    from vmc.props import common
    from vmc.drive import inproc

    if dev.get("kind") == "set":
        return exec_nameset(dev)
    if dev.get("kind") == "notdef":
        return exec_notdef(dev)
    if dev.get("kind") == "cli":
        from vmc.props import c07_cli

        return c07_cli.execute(dev)

    if dev.get("_") == "picosvg":  # a state of the picosvg-base lattice (also when replayed from a file)
        dev = dict(dev, fmt="picosvg")
    dev = {k: v for k, v in dev.items() if k != "_"}
    a = lattice.full(FULL, dev)
    try:
        glyphs, (cfg, font, data) = build(a)
    except Exception as e:
        kind = type(e).__name__
        glyphs, over = scenes.mk(a)
        cfg = inproc.base_config(**over)
        if kind in common.ACCEPTED_ERRORS and (common.error_predicted(glyphs, cfg) or a["fmt"] in ("cbdt", "sbix")):
            return [{"status": "rejected", "clause": "C07.build", "fp": f"rejected:{a['fmt']}:{kind}"}]
        if a["fmt"].startswith("picosvg") and a.get("ext") == "other" and "glyph names need to be stable" in str(e):
            # picosvg into a CFF-flavoured file is refused (the OT-SVG glyph reshuffle needs a post table with names):
            # nothing is emitted, and the property speaks about emitted fonts only
            return [{"status": "rejected", "clause": "C07.build", "fp": f"rejected:{a['fmt']}:otf-unsupported"}]
        import traceback
        return [bad("C07.build", f"{kind}: {e} :: {traceback.format_exc()[-300:]}")]
    problems = structure.check(data, want_names=a["keep"])
    if problems:
        return [bad(c, d) for c, d in problems[:6]]
    tables = "+".join(sorted(t.strip() for t in font.keys() if t.strip() in ("COLR", "SVG", "CBDT", "sbix", "glyf", "CFF", "CFF2", "GSUB")))
    return [ok("C07.valid", f"{tables}:post{font['post'].formatType}")]


def run(report, tier, only=None):
    k = int(only) if only and only.isdigit() else K[tier]
    if only not in ("names", "cli"):
        lattice.explore(report, DIMS, k, execute, relevant=relevant, timeout=300)
        # OT-SVG documents have the richest structure (ids, references, ranges): a second lattice with picosvg as
        # the base format, so that two scene deviations are explored under it as well
        dims_svg = {k_: v for k_, v in DIMS.items() if k_ not in ("fmt", "bitmap_h", "clipq")}
        dims_svg["fmt"] = ["picosvg"]
        lattice.explore(report, dims_svg, k, execute, relevant=relevant, timeout=300, tag="picosvg")
    report.extra["deviation_bound"] = k
    if only in (None, "names"):
        import itertools
        from vmc.core import listing
        from vmc.props import c04

        fmts = ["picosvg", "picosvgz", "untouchedsvg", "glyf_colr_1", "glyf_colr_0", "cbdt"] if tier == "quick" else FORMATS
        cases = [{"kind": "set", "members": [a, b], "fmt": f, "keep": f == "picosvgz", "style": st}
                 for a, b in itertools.combinations(range(len(c04.UNIVERSE)), 2) for f in fmts for st in ("emoji_u", "dash")]
        vec = [f for f in FORMATS if f not in ("cbdt", "sbix")]
        cases += [{"kind": "notdef", "n": n, "pos": p, "fmt": f} for f in vec + ["cbdt", "sbix"] for n in (1, 2, 3) for p in range(n + 1)]
        listing.run(report, cases, execute, timeout=300)
    if only in (None, "cli"):
        from vmc.props import c07_cli

        c07_cli.run(report, tier)
    report.rule = (
        "E1: all states with <= %d deviations over format (13) x scene/config dimensions x pretty_print x bitmap height; every emitted binary is "
        "loaded non-lazily, fully decompiled, re-saved (TTX-equal, second re-save a fixed point) and checked with own parsers of the raw COLR "
        "records, SVG document index/documents and CBLC index sub-tables plus glyph-set agreement and post format; plus fonts written by the real "
        "nanoemoji and maximum_color commands; distinct = set of tables + post format" % k
    )
