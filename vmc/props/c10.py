"""C10 - What the driver resolves is exactly what the build steps see (pure functions,
exhaustive products / words)."""
import io
import json
import itertools
import os
import shutil
import subprocess
from pathlib import Path

from vmc.core import lattice, listing
from vmc.core.listing import ok, bad
from vmc.core.report import HarnessError, canon

# ----------------------------------------------------------------------------- config ----
T = "matrix({} {} {} {} {} {})".format
CONFIG_DIMS = {
    "family": ["An Emoji Family", "", "Fam \"quoted\" 'x'", "Émoji ☺ Family", "a\\b"],
    "output_file": ["AnEmojiFamily.ttf", "Font.otf", "My Font.ttf", "out/dir with space/f.ttf"],
    "color_format": ["glyf_colr_1", "picosvg", "cbdt", "cff2_colr_0", "untouchedsvgz"],
    "upem": [1024, 1000, 16384, 16],
    "width": [1275, 0, 3000],
    "ascender": [950, 0, 15000],
    "descender": [-250, 0, -1000],
    "linegap": [0, 200],
    "transform": ["", "translate(0.3333333333333333, -50)", "scale(1e-07)", "rotate(30)", "matrix(1 0 0 1 123456.789 0)", "scale(0)", "matrix(1 0 0 -1 0 700)"],
    "version_major": [1, 0, 16],
    "version_minor": [0, 280],
    "reuse_tolerance": [0.1, -1, 1e-9, 0.30000000000000004],
    "ignore_reuse_error": [True, False],
    "keep_glyph_names": [False, True],
    "clip_to_viewbox": [True, False],
    "clipbox_quantization": [None, 1, 64],
    "pretty_print": [False, True],
    "fea_file": ["features.fea", "", "dir with space/my \"f\".fea"],
    "glyphmap_generator": ["nanoemoji.write_glyphmap", "my.module_name"],
    "bitmap_resolution": [128, 32, 255],
    "use_zopflipng": [True, False],
    "use_pngquant": [True, False],
    "pngquant_flags": ["--speed 1 --skip-if-larger --quality 85-95", "", "--quality \"1-2\""],
    "axes": ["wght", "none", "two"],
    "masters": ["one", "three", "spacey"],
}
DERIVED = {"source_names"}  # derived from masters by load()


def make_config(a, tmp):
    from nanoemoji import config
    from nanoemoji.config import Axis, AxisPosition, MasterConfig
    from picosvg.svg_transform import Affine2D

    axes = {"wght": (Axis("wght", "Weight", 400),), "none": (), "two": (Axis("wght", "Weight", 400), Axis("wdth", "Width", 100.5))}[a["axes"]]

    def pos(vals):
        return tuple(sorted(AxisPosition(ax.axisTag, v) for ax, v in zip(axes, vals)))

    stem = Path(a["output_file"]).stem
    srcs = (Path(tmp) / "a.svg", Path(tmp) / "b c.svg")
    if a["masters"] == "one":
        ms = [("regular", "Regular", pos([400, 100.5]), srcs)]
    elif a["masters"] == "three":
        ms = [("thin", "Thin", pos([100, 50]), srcs), ("regular", "Regular", pos([400, 100.5]), srcs), ("bold", "Bold", pos([900, 200]), srcs)]
    else:
        ms = [("reg ular", "Reg \"ular\"", pos([400, 100.5]), (Path(tmp) / "dir, with 'odd' chars" / "é x.svg", Path(tmp) / "emoji_u1f601[1] (copy)?.svg"))]
    masters = tuple(MasterConfig(n, sn, ".".join((stem, n, "ufo")), p, tuple(sorted(s))) for n, sn, p, s in ms)
    names = tuple(sorted({s.name for s in masters[0].sources}))
    kw = {k: a[k] for k in CONFIG_DIMS if k not in ("axes", "masters", "transform")}
    tr = Affine2D.fromstring(a["transform"]) if a["transform"] else Affine2D.identity()
    return config.FontConfig(transform=tr, axes=axes, masters=masters, source_names=names, **kw)


def exec_config(case):
    from vmc.drive import inproc

    inproc.init()
    from nanoemoji import config

    dev = {k: v for k, v in case.items() if k not in ("_", "kind")}
    a = lattice.full(CONFIG_DIMS, dev)
    tmp = Path(os.environ.get("VERIF_SCRATCH", "/var/tmp")) / f"c10-{os.getpid()}"
    tmp.mkdir(parents=True, exist_ok=True)
    f = tmp / "cfg.toml"
    try:
        try:
            c = make_config(a, tmp)
            c.validate()
        except Exception as e:
            return [{"status": "skipped", "clause": "C10.config-roundtrip", "fp": "invalid-config"}]
        if c.is_vf and (c.has_bitmaps or c.is_ot_svg) or (len(c.masters) > 1 and not c.axes):
            return [{"status": "skipped", "clause": "C10.config-roundtrip", "fp": "invalid-config"}]
        config.write(f, c)
        try:
            c2 = config.load(f)
        except Exception as e:
            return [bad("C10.config-roundtrip", f"load(write(c)) raises {type(e).__name__}: {e}")]
        diffs = [k for k in c._fields if getattr(c, k) != getattr(c2, k)]
        if diffs:
            k = diffs[0]
            return [bad("C10.config-roundtrip", f"field {k}: wrote {getattr(c, k)!r}, loaded {getattr(c2, k)!r} (all differing: {diffs})")]
        return [ok("C10.config-roundtrip", f"axes{len(c.axes)}-masters{len(c.masters)}")]
    finally:
        shutil.rmtree(tmp, ignore_errors=True)


# ------------------------------------------------------------------------- precedence ----
PRECEDENCE_VALUES = {
    "family": ("A", "B"), "output_file": ("a.ttf", "b.ttf"), "color_format": ("picosvg", "glyf"), "upem": (1000, 2048),
    "width": (0, 500), "ascender": (800, 900), "descender": (-100, -200), "linegap": (10, 20),
    "transform": ("translate(1, 2)", "scale(2)"), "version_major": (2, 3), "version_minor": (4, 5), "reuse_tolerance": (0.5, -1.0),
    "ignore_reuse_error": (False, True), "keep_glyph_names": (True, False), "clip_to_viewbox": (False, True),
    "clipbox_quantization": (7, 64), "pretty_print": (True, False), "fea_file": ("x.fea", "y.fea"),
    "glyphmap_generator": ("a.b", "c.d"), "bitmap_resolution": (64, 32), "use_zopflipng": (False, True),
    "use_pngquant": (False, True), "pngquant_flags": ("--a", "--b"),
}


def exec_precedence(case):
    import toml
    from vmc.drive import inproc

    inproc.init()
    from absl import flags
    from nanoemoji import config
    from picosvg.svg_transform import Affine2D

    name = case["field"]
    default = getattr(config.FontConfig(), name)
    if name == "transform":
        default = ""
    vals = tuple(PRECEDENCE_VALUES[name]) + (default,)  # index 2: the documented default, given explicitly
    in_file = None if case["file"] is None else vals[case["file"]]
    as_flag = None if case["flag"] is None else vals[case["flag"]]
    if (in_file is None and case["file"] is not None) or (as_flag is None and case["flag"] is not None):
        return [{"status": "skipped", "clause": "C10.flag-file-default", "fp": None}]  # default is None: cannot be given explicitly
    tmp = Path(os.environ.get("VERIF_SCRATCH", "/var/tmp")) / f"c10p-{os.getpid()}"
    tmp.mkdir(parents=True, exist_ok=True)
    f = tmp / "cfg.toml"
    try:
        base = config.load()
        config.write(f, base._replace(masters=tuple(m._replace(sources=(tmp / "a.svg",)) for m in base.masters)))
        d = toml.load(f)
        d.pop(name, None)
        if in_file is not None:
            d[name] = in_file
        f.write_text(toml.dumps(d))
        FL = flags.FLAGS
        old = FL[name].value
        try:
            FL[name].value = as_flag
            got = getattr(config.load(f), name)
        finally:
            FL[name].value = old
        exp = as_flag if as_flag is not None else (in_file if in_file is not None else getattr(config.FontConfig(), name))
        if name == "transform" and isinstance(exp, str):
            exp = Affine2D.fromstring(exp) if exp else Affine2D.identity()
        if got != exp:
            return [bad("C10.flag-file-default", f"{name}: file={in_file!r} flag={as_flag!r} -> {got!r}, expected {exp!r}")]
        return [ok("C10.flag-file-default", "flag" if as_flag is not None else "file" if in_file is not None else "default")]
    finally:
        shutil.rmtree(tmp, ignore_errors=True)


# --------------------------------------------------------------------------- glyph map ----
ALPHABET = ["a", " ", ",", '"', "'", "é", "#", "-", "_", "."]
CPS = [(), (0x1F600,), (0x1F468, 0x200D, 0x1F469)]
NAMES = [".notdef", "g_1f600"]


def words(maxlen=3):
    out = []
    for n in range(1, maxlen + 1):
        out += ["".join(t) for t in itertools.product(ALPHABET, repeat=n)]
    return out


def ninja_shell_escape(s):
    """what ninja puts into $in / rspfile_content for a path (POSIX): GetShellEscapedString"""
    safe = set("abcdefghijklmnopqrstuvwxyzABCDEFGHIJKLMNOPQRSTUVWXYZ0123456789_+-./")
    if s and all(ch in safe for ch in s):
        return s
    return "'" + s.replace("'", "'\\''") + "'"


def glyphmap_shard(shard):
    from vmc.drive import inproc

    inproc.init()
    from nanoemoji import glyphmap, util
    from collections import Counter

    ws = shard["words"]
    n = 0
    fps = Counter()
    viol = []
    samples = []
    tmp = Path(os.environ.get("VERIF_SCRATCH", "/var/tmp")) / f"c10g-{os.getpid()}"
    tmp.mkdir(parents=True, exist_ok=True)
    rsp = tmp / "x.rsp"
    try:
        for w in ws:
            for where in ("dir", "stem"):
                svg = Path(f"{w}/x.svg") if where == "dir" else Path(f"d/{w}.svg")
                png = Path(f"{w}/x.png") if where == "dir" else Path(f"d/{w}.png")
                for cols in ("svg", "png", "both"):
                    for cps in CPS:
                        for name in NAMES:
                            n += 1
                            m = glyphmap.GlyphMapping(svg if cols != "png" else None, png if cols != "svg" else None, cps, name)
                            case = {"kind": "glyphmap", "word": w, "where": where, "cols": cols, "cps": list(cps), "name": name}
                            try:
                                back = glyphmap.load_from(io.StringIO(m.csv_line() + "\n"))
                            except Exception as e:
                                back = f"{type(e).__name__}: {e}"
                            if back != (m,):
                                first = str(m.svg_file or m.bitmap_file)
                                sig = "csv-leading-space" if first.startswith(" ") else None
                                if len(viol) < 40:
                                    viol.append(("C10.glyphmap-roundtrip", case, f"{m} -> {m.csv_line()!r} -> {back}", sig))
                                fps["glyphmap:differs"] += 1
                            else:
                                fps["glyphmap:" + cols] += 1
                # response files: the names as ninja writes them into $out.rsp
                n += 1
                names = [str(svg), str(png)]
                rsp.write_text(" ".join(ninja_shell_escape(x) for x in names))
                got = util.expand_ninja_response_files(["@" + str(rsp)])
                if got != names:
                    viol.append(("C10.rspfile-roundtrip", {"kind": "rsp", "word": w, "where": where}, f"{names} -> {got}", None))
                    fps["rsp:differs"] += 1
                else:
                    fps["rsp:ok"] += 1
            if not samples:
                samples.append({"kind": "glyphmap", "word": w})
    finally:
        shutil.rmtree(tmp, ignore_errors=True)
    return {"n": n, "fps": dict(fps), "violations": viol, "samples": samples}


def bind_ninja_quoting(report):
    """one real ninja run: the reference quoting above must be what ninja writes"""
    from ninja import ninja_syntax

    tmp = Path(os.environ.get("VERIF_SCRATCH", "/var/tmp")) / f"c10n-{os.getpid()}"
    shutil.rmtree(tmp, ignore_errors=True)
    tmp.mkdir(parents=True)
    try:
        names = [w for w in words(2) if "/" not in w and w not in (".", "..")]
        files = []
        for i, w in enumerate(names):
            p = tmp / "in" / f"{i}" / (w + ".svg")
            p.parent.mkdir(parents=True, exist_ok=True)
            p.write_text("x")
            files.append(os.path.relpath(p, tmp))
        with open(tmp / "build.ninja", "w") as f:
            nw = ninja_syntax.Writer(f)
            nw.rule("collect", "cp $out.rsp $out", rspfile="$out.rsp", rspfile_content="$in")
            nw.build("out.txt", "collect", files)
        r = subprocess.run(["ninja", "-C", str(tmp)], capture_output=True, text=True, env=dict(os.environ, PATH="/venv/bin:" + os.environ.get("PATH", "")))
        if r.returncode != 0:
            raise HarnessError("ninja binding run failed: " + r.stdout[-300:] + r.stderr[-300:])
        got = (tmp / "out.txt").read_text()
        exp = " ".join(ninja_shell_escape(x) for x in files)
        if got.strip() != exp.strip():
            raise HarnessError("reference model of ninja's rspfile quoting disagrees with real ninja")
        report.extra["ninja_quoting_bound_on_names"] = len(files)
    finally:
        shutil.rmtree(tmp, ignore_errors=True)


# ------------------------------------------------------------------------------- parts ----
def exec_parts(case):
    from vmc.drive import inproc

    inproc.init()
    from nanoemoji.parts import ReusableParts
    from picosvg.geometric_types import Rect
    from picosvg.svg import SVG
    from vmc.gen import scenes

    dev = {k: v for k, v in case.items() if k not in ("_", "kind")}
    a = lattice.full(scenes.DIMS, dev)
    glyphs, over = scenes.mk(a)
    wh = a["metrics"][1] - a["metrics"][2]
    tol = a["tol"]
    individual = []
    for g in glyphs:
        p = ReusableParts(view_box=Rect(0, 0, wh, wh), reuse_tolerance=tol)
        p.add(SVG.fromstring(g.svg()))
        individual.append(p)
    combined = ReusableParts(view_box=Rect(0, 0, wh, wh), reuse_tolerance=tol)
    for p in individual:
        combined.add(ReusableParts.from_json(p.to_json()))
    combined.compute_donors()
    out = []
    for label, p in [("part", x) for x in individual] + [("combined", combined)]:
        try:
            q = ReusableParts.from_json(p.to_json())
        except Exception as e:
            out.append(bad("C10.parts-roundtrip", f"{label}: from_json(to_json()) raises {type(e).__name__}: {e}"))
            continue
        if (q.view_box, q.reuse_tolerance, q.version) != (p.view_box, p.reuse_tolerance, p.version):
            out.append(bad("C10.parts-roundtrip", f"{label}: header differs: {(q.view_box, q.reuse_tolerance)} vs {(p.view_box, p.reuse_tolerance)}"))
        if {k: set(v) for k, v in q.shape_sets.items()} != {k: set(v) for k, v in p.shape_sets.items()}:
            out.append(bad("C10.parts-roundtrip", f"{label}: shape sets differ"))
        if dict(q._donor_cache) != dict(p._donor_cache):
            out.append(bad("C10.parts-roundtrip", f"{label}: donors differ"))
    if not out:
        out.append(ok("C10.parts-roundtrip", f"sets{len(combined.shape_sets)}-multi{sum(1 for s in combined.shape_sets.values() if len(s) > 1)}"))
    return out


# -------------------------------------------------------------------------------------------
def names_across_processes(report):
    """The driver, write_glyphmap, write_fea and write_font are separate processes, each with its own hash seed: the glyph
    name of a sequence (also one long enough to be shortened) must be the same in all of them."""
    import subprocess
    import sys
    from vmc.drive import cli
    from vmc.props import c04
    from nanoemoji.glyph import glyph_name

    seqs = [tuple(c04.LONG[:n]) for n in range(1, 15)] + [tuple(c04.SIGMA[(i * 3 + j) % len(c04.SIGMA)] for j in range(n)) for n in (1, 2, 5, 11, 13, 14) for i in range(3)]
    code = ("import sys,json;from absl import flags;flags.FLAGS(['x']);from nanoemoji.glyph import glyph_name;"
            "print(json.dumps([glyph_name(tuple(s)) for s in json.loads(sys.argv[1])]))")
    here = [glyph_name(s) for s in seqs]
    for seed in ("1", "2", "random"):
        env = cli.env(hashseed=None if seed == "random" else seed)
        r = subprocess.run([sys.executable, "-c", code, json.dumps([list(s) for s in seqs])], env=env, capture_output=True, text=True)
        if r.returncode != 0:
            from vmc.core.report import HarnessError

            raise HarnessError("glyph_name subprocess failed: " + r.stderr[-300:])
        there = json.loads(r.stdout.strip().splitlines()[-1])
        report.evaluations += len(seqs)
        report.executions += 1
        for s_, a_, b_ in zip(seqs, here, there):
            if a_ != b_:
                report.add_violation("C10.name-same-in-every-process", {"kind": "name-process", "seq": list(s_), "seed": seed},
                                     f"{[hex(c) for c in s_]}: glyph name {a_!r} in this process, {b_!r} in a process with PYTHONHASHSEED={seed}", "name-depends-on-process")
                break
    report.fps["names-across-processes"] += 1


def execute(case):
    kind = case.get("kind")
    if kind == "config":
        return exec_config(case)
    if kind == "precedence":
        return exec_precedence(case)
    if kind == "parts":
        return exec_parts(case)
    if kind == "glyphmap":
        r = glyphmap_shard({"words": [case["word"]]})
        return [bad(c, d, s) for c, cs, d, s in r["violations"] if cs.get("where") == case.get("where", cs.get("where"))] or [ok("C10.glyphmap-roundtrip")]
    if kind in ("name", "name-pair", "filename"):
        from vmc.props import c04

        return c04.exec_pure(case, prefix="C10")
    return [bad("C10.replay", f"unknown case kind {kind}")]


def run(report, tier, only=None):
    from vmc.drive import inproc

    inproc.init()
    from nanoemoji import config
    from vmc.gen import scenes

    missing = [f for f in config.FontConfig._fields if f not in CONFIG_DIMS and f not in DERIVED]
    if missing:
        report.add_violation("C10.field-without-dimension", {"kind": "meta", "fields": missing}, f"FontConfig fields without a dimension in the explorer: {missing}")
    k = 2
    if only in (None, "config"):
        devs, skipped = lattice.states(CONFIG_DIMS, k)
        cases = [dict(d, kind="config") for d in devs]
        listing.run(report, cases, execute, timeout=60, transitions_per_case=1)
    if only in (None, "precedence"):
        cases = [{"kind": "precedence", "field": f, "file": fi, "flag": fl}
                 for f in PRECEDENCE_VALUES for fi in (None, 0, 1, 2) for fl in (None, 0, 1, 2)]
        flag_backed = set(PRECEDENCE_VALUES)
        unflagged = [f for f in config.FontConfig._fields if f not in flag_backed and f not in ("axes", "masters", "source_names")]
        if unflagged:
            report.add_violation("C10.field-without-dimension", {"kind": "meta", "fields": unflagged}, f"fields without a precedence case: {unflagged}")
        listing.run(report, cases, execute, timeout=60, jobs=1)
    if only in (None, "glyphmap"):
        bind_ninja_quoting(report)
        ws = words(3)
        shards = [{"words": ws[i:i + 40]} for i in range(0, len(ws), 40)]
        listing.run_shards(report, shards, glyphmap_shard)
    if only in (None, "names"):
        from vmc.props import c04

        c04.pure_level(report, tier, prefix="C10")
        names_across_processes(report)
    if only in (None, "parts"):
        devs, _ = lattice.states({k_: scenes.DIMS[k_] for k_ in ("outline", "place", "where", "tol", "metrics", "vb_size", "vb_aspect", "stack", "grp", "nglyphs")}, 1 if tier == "quick" else 2, scenes.relevant)
        cases = [dict(d, kind="parts") for d in devs if d.get("tol", 0.1) != 0]
        listing.run(report, cases, execute, timeout=120)
    report.rule = (
        "config: every FontConfig with <=2 non-default fields (every field has a dimension; meta-check) written with config.write and loaded back, "
        "compared field for field; precedence: {absent,v1,v2} in file x {absent,v1,v2} as flag for every flag-backed field; glyph map: every string of "
        "length <=3 over 10 characters as directory or stem x column mode x codepoints x glyph name through csv_line/load_from, and through ninja's "
        "response-file quoting (reference bound to one real ninja run); names: as C04(a); parts: to_json/from_json on every level-<=1/2 scene; "
        "distinct = outcome class per family"
    )
