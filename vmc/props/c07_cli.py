def run(report, tier):
    pass
