"""C07, command-line family: every font file the real `nanoemoji` and `maximum_color` commands write."""
import shutil

from vmc.core import listing
from vmc.core.listing import ok, bad
from vmc.oracles import structure

NANO = ["glyf_colr_1", "glyf_colr_0", "cff2_colr_1", "picosvg", "untouchedsvgz", "cbdt", "sbix"]


def exec_third_party(case):
    """maximum_color on a font nanoemoji did not build (kerning, marks, a chaining context): the glyph order is rearranged
    for the added OT-SVG table, every layout table has to stay valid"""
    from vmc.core import lattice
    from vmc.drive import cli
    from vmc.props import c12

    w = cli.mkscratch("c07t")
    try:
        data = c12.third_party(lattice.full(c12.DIMS, {"kind": case["input"]}))
        (w / "In.ttf").write_bytes(data)
        r = cli.maximum_color(w, ["--build_dir", str(w / "mc"), "--output_file", "Max.ttf", "--keep_glyph_names"] + (["--bitmaps"] if case.get("bitmaps") else []) + [str(w / "In.ttf")])
        out = w / "mc" / "Max.ttf"
        if r.returncode != 0 or not out.exists():
            return [bad("C07.cli-build", f"maximum_color on the third-party {case['input']} font: exit {r.returncode}: {(r.stderr or '')[-300:]}")]
        vs = [bad(c, f"maximum_color({case['input']}): {d}") for c, d in structure.check(out.read_bytes(), want_names=True)[:5]]
        return vs or [ok("C07.valid", f"cli:{case['input']}:maximum_color")]
    finally:
        shutil.rmtree(w, ignore_errors=True)


def execute(case):
    from vmc.drive import cli, conformance

    if case.get("input"):
        return exec_third_party(case)
    w = cli.mkscratch("c07c")
    try:
        fmt = case["fmt"]
        over = {"color_format": fmt, "output_file": "Font.otf" if fmt.startswith("cff") else "Font.ttf", "keep_glyph_names": case["keep"]}
        if fmt in ("cbdt", "sbix"):
            over.update(use_pngquant=False)
        srcs = conformance.base_sources()
        if case.get("empty_middle"):
            # three sources, the middle one paints nothing: colour glyphs are not contiguous in the glyph order
            from vmc.core import lattice as L
            from vmc.gen import scenes
            from vmc.oracles.scene import Glyph

            g3, _ = scenes.mk(L.full(scenes.DIMS, {"nglyphs": 3}))
            g3[1] = Glyph(g3[1].cps, g3[1].vb, [])
            srcs = [(f"emoji_u{'_'.join('%04x' % c for c in g.cps)}.svg", g.svg()) for g in g3]
        elif case.get("seq"):
            srcs = srcs + [("emoji_ue000_200d_e001.svg", srcs[0][1])]
        files = cli.write_sources(w / "src", srcs)
        r = cli.nanoemoji(w, cli.flags_for(over) + [str(f) for f in files])
        out = w / "build" / over["output_file"]
        if r.returncode != 0 or not out.exists():
            return [bad("C07.cli-build", f"nanoemoji {fmt}: exit {r.returncode}: {(r.stderr or '')[-300:]}")]
        vs = [bad(c, f"nanoemoji {fmt}: {d}") for c, d in structure.check(out.read_bytes(), want_names=case["keep"])[:5]]
        if case.get("maximum_color") and not vs:
            args = ["--build_dir", str(w / "mc"), "--output_file", "Max.ttf"] + (["--bitmaps"] if case["maximum_color"] == "bitmaps" else []) + \
                   (["--keep_glyph_names"] if case["keep"] else ["--nokeep_glyph_names"])
            r2 = cli.maximum_color(w, args + [str(out)])
            out2 = w / "mc" / "Max.ttf"
            if r2.returncode != 0 or not out2.exists():
                return [bad("C07.cli-build", f"maximum_color on the {fmt} font: exit {r2.returncode}: {(r2.stderr or '')[-300:]}")]
            vs += [bad(c, f"maximum_color({fmt}): {d}") for c, d in structure.check(out2.read_bytes(), want_names=case["keep"])[:5]]
        return vs or [ok("C07.valid", f"cli:{fmt}:{case.get('maximum_color') or '-'}")]
    finally:
        shutil.rmtree(w, ignore_errors=True)


def run(report, tier):
    cases = []
    for fmt in NANO:
        for keep in ((False, True) if tier == "thorough" else (False,)):
            cases.append({"kind": "cli", "fmt": fmt, "keep": keep, "seq": fmt in ("picosvg", "glyf_colr_1", "cbdt")})
    for fmt, mc in (("glyf_colr_1", "plain"), ("picosvg", "plain"), ("glyf_colr_0", "bitmaps"), ("untouchedsvgz", "plain")):
        for keep in (True, False):
            cases.append({"kind": "cli", "fmt": fmt, "keep": keep, "maximum_color": mc, "seq": True})
    for fmt in ("picosvg", "glyf_colr_1"):
        cases.append({"kind": "cli", "fmt": fmt, "keep": True, "maximum_color": "bitmaps", "empty_middle": True})
    cases += [{"kind": "cli", "input": "third_colr1"}, {"kind": "cli", "input": "third_colr0"}, {"kind": "cli", "input": "third_colr1", "bitmaps": True}]
    listing.run(report, cases, execute, timeout=900, jobs=6)
    report.extra["cli_fonts_checked"] = len(cases)
