"""C06 - Shape and gradient reuse never changes what is painted.
Each lattice state is a *pair of builds* of the same sources: reuse tolerance t vs -1."""
from vmc.core import lattice
from vmc.core.listing import ok, bad
from vmc.gen import scenes
from vmc.oracles import aff, flatten, paths, picture, shaper
from vmc.props import common

KEEP = ("outline", "place", "where", "donor_paint", "copy_paint", "grp", "stack", "nglyphs", "vb_size", "rad_geom", "lin_vec", "twin", "grad_twice", "vb_b", "clone")
DIMS = {k: scenes.DIMS[k] for k in KEEP}
DIMS["tol"] = [0.1, 0.5, 0.01, 1e-9, 0]
DIMS["fmt"] = ["glyf_colr_1", "glyf_colr_0", "picosvg"]
# glyph names as a glyph map may give them: with dots of their own, one name a prefix of another (layer glyphs are named <glyph>.<n>)
DIMS["names"] = ["default", "dotted"]
DOTTED = ["wave.alt", "star", "wave"]
K = {"quick": 2, "thorough": 2}
# thorough: <= 2 deviations over all dimensions + every state with 3 deviations among the core dimensions (`--only 3` = full level 3)
CORE3 = ("outline", "place", "where", "donor_paint", "copy_paint", "grp", "stack", "tol", "fmt", "twin", "vb_b", "grad_twice")
FULL = dict(scenes.DIMS)
FULL.update(DIMS)


def _leaves(font, g, fmt):
    names = shaper.shape(font, g.cps)
    if len(names) != 1:
        raise ValueError(f"{g.cps} shapes to {names}")
    name = names[0]
    if fmt.endswith("svg"):
        from vmc.oracles.svg_eval import SvgPicture

        gid = font.getGlyphID(name)
        docs = [d for d in common.svg_docs(font) if d[1] <= gid <= d[2]] if "SVG " in font else []
        if not docs:
            return name, [], None
        pic = SvgPicture(docs[0][0], fg=common.FG)
        if f"glyph{gid}" not in pic.ids:
            return name, [], None
        return name, flatten.svg_leaves(pic, f"glyph{gid}"), (lambda p: pic.at_element(f"glyph{gid}", (p[0], -p[1])))
    if "COLR" not in font:
        return name, [], None
    from vmc.oracles.colr_eval import ColrPicture

    pic = ColrPicture(font, foreground=common.FG)
    return name, flatten.colr_leaves(font, name, common.FG), (lambda p: pic.at(name, p))


def _premul(c):
    return (c[0] * c[3], c[1] * c[3], c[2] * c[3], c[3])


def execute(dev):
    from vmc.drive import inproc

    if dev.get("kind") == "cli":
        return exec_cli(dev)

    if dev.get("_") == "picosvg":  # a state of the picosvg-base lattice (also when replayed from a file)
        dev = dict(dev, fmt="picosvg")
    dev = {k: v for k, v in dev.items() if k != "_"}
    a = lattice.full(FULL, dev)
    glyphs, over = scenes.mk(a)
    texts = [(g.cps, g.svg()) for g in glyphs]
    fonts = {}
    for which, tol in (("reuse", a["tol"]), ("noreuse", -1)):
        try:
            cfg, font, data = inproc.build_direct(texts, dict(over, reuse_tolerance=tol), names=None if a["names"] == "default" else DOTTED[:len(texts)])
        except Exception as e:
            import traceback
            # tolerance 0 fails in picosvg's normalisation whatever the scene and the format: one finding, one signature
            sig = '[["tol","0"]]' if which == "reuse" and tol == 0 and isinstance(e, ZeroDivisionError) else None
            return [bad("C06.both-builds-succeed", f"{which} build (tolerance {tol}): {type(e).__name__}: {e} :: {traceback.format_exc()[-300:]}",
                        sig=sig, fp=f"exc:{which}:{type(e).__name__}")]
        fonts[which] = (cfg, font)
    cfg, fr = fonts["reuse"]
    _, fn = fonts["noreuse"]
    fmt = a["fmt"]
    out = []
    fired = False
    tol = a["tol"]
    for g in glyphs:
        try:
            name_r, lr, at_r = _leaves(fr, g, fmt)
            name_n, ln_, at_n = _leaves(fn, g, fmt)
        except flatten.Unsupported as e:
            out.append(bad("C06.structure", f"unsupported structure: {e}"))
            continue
        if len(lr) != len(ln_):
            out.append(bad("C06.layer-count", f"{[hex(c) for c in g.cps]}: {len(lr)} layers with reuse, {len(ln_)} without"))
            continue
        for i, (x, y) in enumerate(zip(lr, ln_)):
            if x.matrix[:4] != y.matrix[:4] or (fmt.endswith("svg") and x.matrix != y.matrix) or x.name != y.name:
                fired = fired or (x.matrix != y.matrix)
            scale = max(1.0, abs(x.matrix[0]) + abs(x.matrix[2]), abs(x.matrix[1]) + abs(x.matrix[3])) if not fmt.endswith("svg") else 1.0
            px, py = x.poly(), y.poly()
            if fmt.endswith("svg"):
                # paths live in viewBox units there; quantisation is 3 decimals of a viewBox unit
                s_vb = (cfg.ascender - cfg.descender) / g.vb[3]
                allowed = tol + 0.01 * s_vb * max(1.0, common._use_scale_matrix(x.matrix, s_vb)) + paths.spacing(py) / 2
            else:
                allowed = tol + common.unit_tol(cfg) * scale + paths.spacing(py) / 2
            d = paths.hausdorff(px, py)
            if d > allowed:
                out.append(bad("C06.layer-outline", f"{[hex(c) for c in g.cps]} layer {i}: outlines {d:.2f} units apart (allowed {allowed:.2f})"))
                continue
            if x.tag != y.tag:
                out.append(bad("C06.layer-fill-kind", f"layer {i}: {x.tag} with reuse, {y.tag} without"))
                continue
            probes = [p for p in y.interior(7) if x.contains(p)]
            st = picture.compare(lambda p: _premul(y.fill_at(p)), lambda p: _premul(x.fill_at(p)), probes, common.unit_tol(cfg) * scale + tol)
            if st["bad"]:
                out.append(bad("C06.layer-colour", f"{[hex(c) for c in g.cps]} layer {i} ({x.tag}): {st['bad']} of {st['valid']} interior probes differ, worst {st['worst']}/255 e.g. {st['first'][:1]}"))
        if at_r is not None and at_n is not None:
            adv = fr["hmtx"][name_r][0]
            if fn["hmtx"][name_n][0] != adv:
                out.append(bad("C06.advance", f"advance {adv} vs {fn['hmtx'][name_n][0]}"))
            probes = common.region_probes(cfg, adv, common.user_affine(cfg), 20)
            gscale = max([1.0] + [max(abs(l.matrix[0]) + abs(l.matrix[2]), abs(l.matrix[1]) + abs(l.matrix[3])) for l in lr]) if not fmt.endswith("svg") else \
                max([1.0] + [common._use_scale_matrix(l.matrix, (cfg.ascender - cfg.descender) / g.vb[3]) for l in lr])
            st = picture.compare(at_n, at_r, probes, common.unit_tol(cfg) * gscale + tol)
            if st["bad"]:
                out.append(bad("C06.picture", f"{[hex(c) for c in g.cps]}: {st['bad']} of {st['valid']} probes differ between the two builds, e.g. {st['first'][:1]}"))
    struct_r = common.graph_fingerprint(fr) if not fmt.endswith("svg") else common.svg_fingerprint(fr)
    if not fmt.endswith("svg"):
        fired = fired or _outline_glyphs(fr) != _outline_glyphs(fn)
    else:
        fired = fired or sum(d[0].count("<use") for d in common.svg_docs(fr)) > 0
    if not out:
        out.append(ok("C06.equivalent", f"{fmt}:{'reuse' if fired else 'noreuse'}:{struct_r}"))
    out[0]["fired"] = bool(fired)
    out[0]["fmt"] = fmt
    return out


def exec_cli(case):
    """CLI slice: 'both builds succeed' is a statement about the command"""
    from vmc.drive import cli, conformance
    import shutil

    w = cli.mkscratch("c06")
    try:
        files = cli.write_sources(w / "src", conformance.base_sources())
        over = {"color_format": case["fmt"], "reuse_tolerance": case["tol"], "output_file": "Font.ttf"}
        r = cli.nanoemoji(w, cli.flags_for(over) + [str(f) for f in files])
        if r.returncode != 0 or not (w / "build" / "Font.ttf").exists():
            return [bad("C06.cli-build-succeeds", f"nanoemoji --reuse_tolerance={case['tol']} --color_format={case['fmt']} exits {r.returncode}: {(r.stderr or '')[-300:]}",
                        sig=f"cli:tol={case['tol']}")]
        return [ok("C06.cli-build-succeeds", f"cli:{case['fmt']}:{case['tol']}")]
    finally:
        shutil.rmtree(w, ignore_errors=True)


def _outline_glyphs(font):
    return len(font.getGlyphOrder())


def run(report, tier, only=None):
    from vmc.oracles import selftest

    selftest.run(report)
    k = int(only) if only and only.isdigit() else K[tier]
    deep = 3 if tier == "thorough" and not (only and only.isdigit()) else None
    devs, results = ([], []) if only == "cli" else lattice.explore(report, DIMS, k, execute, relevant=scenes.relevant, timeout=300, deep_dims=CORE3, deep_k=deep)
    report.extra["deep_sublattice"] = {"dims": [d for d in DIMS if d in CORE3], "bound": deep} if deep else None
    if only != "cli":
        # OT-SVG reuse (<use>, paint attributes moved between the path and its uses) has its own code: a second lattice with
        # picosvg as the base format, so that two scene deviations are explored under it as well
        dims_svg = {k_: v for k_, v in DIMS.items() if k_ != "fmt"}
        _, res2 = lattice.explore(report, dims_svg, k, execute, relevant=scenes.relevant, timeout=300, tag="picosvg")
        results = list(results) + list(res2)
    if only is None or only == "cli":
        from vmc.core import listing

        cases = [{"kind": "cli", "fmt": f, "tol": t} for f in DIMS["fmt"] for t in (0.1, -1, 0.5)]
        listing.run(report, cases, execute, timeout=600, jobs=5)
    fired = {}
    for r in results:
        if r and "fired" in r[0]:
            f = fired.setdefault(r[0]["fmt"], [0, 0])
            f[0] += 1
            f[1] += int(r[0]["fired"])
    report.extra["states_in_which_reuse_fired"] = {k_: {"states": v[0], "reuse_fired": v[1]} for k_, v in fired.items()}
    report.extra["deviation_bound"] = k
    if deep:
        report.assumptions.append("thorough tier: every state with <= 2 deviations over all dimensions plus every state with 3 deviations among the core dimensions listed under deep_sublattice in the evidence")
    for fmt, (n, f) in fired.items():
        if n > 10 and f == 0:
            from vmc.core.report import HarnessError
            raise HarnessError(f"vacuous: reuse never fired for {fmt}")
    report.rule = (
        "E1 over outline x placement of the copy x where it lives x paints x group x tolerance x format x glyph names (default, or with dots and one a prefix of another), <= %d deviations; "
        "each state = two real builds (tolerance t and -1) compared leaf by leaf (count, order, placed outline within "
        "tolerance+quantisation, fill colour at interior probes) plus whole-picture equality; distinct = format, whether reuse fired, graph shape" % k
    )
    report.assumptions += ["leaf outlines are compared by Hausdorff distance of dense samples (8 per segment)"]
