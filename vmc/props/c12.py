"""C12 - maximum_color adds colour tables without altering the font (real CLI)."""
import hashlib
import io
import shutil
from pathlib import Path

from vmc.core import lattice
from vmc.core.listing import ok, bad
from vmc.oracles import aff, facts, picture, shaper, structure

DIMS = {
    "kind": ["third_colr1", "third_colr0", "nano_colr1", "nano_colr0", "nano_picosvg", "nano_untouchedsvg"],
    "bitmaps": [False, True],
    "colr_version": [1, 0],
    "keep": [True, False],
    "space": [True, False],
    "layout": [True, False],
    "palettes": [1, 2],
    "names": [True, False],
    "zero_width": [False, True],
    "empty_middle": [False, True],
    # seven colour glyphs, the last two sharing a shape: an OT-SVG input then holds a document for glyph ids 7..8
    "many": [False, True],
    # a line gap in the input font (hhea / OS/2): the em box the pictures are scaled to is ascender - descender, not the line height
    "linegap": [0, 300],
    # a third-party font whose hhea ascent / descent (and win metrics) are not its typo metrics, as is usual outside nanoemoji's own output
    "hhea": ["typo", "taller"],
}
K = {"quick": 1, "thorough": 2}
FG = (0.2, 0.9, 0.4, 1.0)


def relevant(dev):
    kind = dev.get("kind", "third_colr1")
    third = kind.startswith("third")
    if any(k in dev for k in ("space", "layout", "palettes", "names", "zero_width")) and not third:
        return False
    if "colr_version" in dev and "svg" not in kind:
        return False
    if ("many" in dev or "linegap" in dev) and third:
        return False
    if "empty_middle" in dev and third:
        return False
    if "hhea" in dev and not third:
        return False
    return True


def third_party(a):
    from fontTools.fontBuilder import FontBuilder
    from fontTools.pens.ttGlyphPen import TTGlyphPen
    from fontTools.feaLib.builder import addOpenTypeFeaturesFromString
    from fontTools.ttLib.tables.otTables import PaintFormat as PF

    def poly(pts):
        pen = TTGlyphPen(None)
        pen.moveTo(pts[0])
        for p in pts[1:]:
            pen.lineTo(p)
        pen.closePath()
        return pen.glyph()

    v = 0 if a["kind"] == "third_colr0" else 1
    fb = FontBuilder(1000, isTTF=True)
    # a plain glyph between the colour glyphs: adding the SVG table then reorders the glyphs
    order = [".notdef"] + (["space"] if a["space"] else []) + ["A", "L", "B", "mark", "T"]  # L: a plain glyph that is a mark base and a kerning partner
    fb.setupGlyphOrder(order)
    cm = {0x41: "A", 0x42: "B", 0x301: "mark"}
    if a["space"]:
        cm[0x20] = "space"
    fb.setupCharacterMap(cm)
    gl = {g: TTGlyphPen(None).glyph() for g in order}
    gl["L"] = poly([(100, 100), (500, 100), (500, 250), (250, 250), (250, 600), (100, 600)])
    gl["T"] = poly([(300, 50), (900, 150), (500, 700)])
    gl["mark"] = poly([(10, 700), (60, 700), (60, 760), (10, 760)])
    fb.setupGlyf(gl)
    adv = {g: 1000 for g in order}
    adv["B"] = 700
    adv["mark"] = 0 if a["zero_width"] else 300
    fb.setupHorizontalMetrics({g: (adv[g], (fb.font["glyf"][g].xMin if fb.font["glyf"][g].numberOfContours else 0)) for g in order})
    tall = a.get("hhea", "typo") == "taller"
    fb.setupHorizontalHeader(ascent=970 if tall else 800, descent=-310 if tall else -200)
    fb.setupNameTable({"familyName": "T", "styleName": "R"})
    fb.setupOS2(sTypoAscender=800, sTypoDescender=-200, usWinAscent=970 if tall else 800, usWinDescent=310 if tall else 200)
    fb.setupPost(keepGlyphNames=a["names"])
    solid = lambda i, al=1.0: {"Format": PF.PaintSolid, "PaletteIndex": i, "Alpha": al}
    lin = {"Format": PF.PaintLinearGradient, "ColorLine": {"ColorStop": [(0, 0), (1, 1)], "Extend": "reflect"}, "x0": 150, "y0": 150, "x1": 350, "y1": 300, "x2": 100, "y2": 400}
    if v == 1:
        colr = {"A": {"Format": PF.PaintColrLayers, "Layers": [{"Format": PF.PaintGlyph, "Glyph": "T", "Paint": solid(2)},
                                                              {"Format": PF.PaintRotate, "angle": 15, "Paint": {"Format": PF.PaintGlyph, "Glyph": "L", "Paint": lin}}]},
                # ... directly chained transform paints that do not commute (translate, then scale)
                "B": {"Format": PF.PaintColrLayers, "Layers": [{"Format": PF.PaintTranslate, "dx": 140, "dy": -60, "Paint": {"Format": PF.PaintScale, "scaleX": 0.6, "scaleY": 0.6, "Paint": {"Format": PF.PaintGlyph, "Glyph": "L", "Paint": solid(0xFFFF, 0.7)}}},
                                                              # ... a gradient of its own first, then the very gradient glyph A uses (each glyph's SVG document has to define it itself)
                                                              {"Format": PF.PaintGlyph, "Glyph": "T", "Paint": dict(lin, ColorLine={"ColorStop": [(0, 2), (1, 0)], "Extend": "pad"})},
                                                              {"Format": PF.PaintRotate, "angle": 15, "Paint": {"Format": PF.PaintGlyph, "Glyph": "L", "Paint": lin}}]}}
        if a["zero_width"]:
            colr["mark"] = {"Format": PF.PaintGlyph, "Glyph": "mark", "Paint": solid(1)}
    else:
        colr = {"A": [("T", 2), ("L", 0)], "B": [("L", 0xFFFF), ("T", 1)]}
    fb.setupCOLR(colr)
    pal = [(1, 0, 0, 1), (0, 0, 1, 1), (0, 0.5, 0, 1)]
    fb.setupCPAL([pal] + ([[(0, 1, 1, 1), (1, 0, 1, 1), (1, 1, 0, 1)]] if a["palettes"] == 2 else []))
    if a["layout"]:
        addOpenTypeFeaturesFromString(fb.font, """languagesystem DFLT dflt;
markClass mark <anchor 30 700> @TOP;
feature kern { pos A B -50; pos B A -30; pos B B 10; pos L A -20; pos T L 15; } kern;
feature calt { lookup swap { sub L by T; } swap; sub [L B]' lookup swap [A T]; } calt;
feature mark { pos base A <anchor 500 720> mark @TOP; pos base B <anchor 350 710> mark @TOP; pos base L <anchor 120 640> mark @TOP; pos base T <anchor 480 705> mark @TOP; } mark;
table GDEF { GlyphClassDef [A B L T], , [mark], ; } GDEF;""")
        # plain glyphs (L, T) are bases and kerning partners too: when the SVG table is glued on, colour glyphs move
        # behind the plain ones, so the relative order of covered glyphs changes
    b = io.BytesIO()
    fb.font.save(b)
    return b.getvalue()


def nano_font(kind, solid_only=False, empty_middle=False, many=False, linegap=0):
    from vmc.core import lattice as L
    from vmc.drive import inproc
    from vmc.gen import scenes
    from vmc.oracles import scene as sc

    fmt = {"nano_colr1": "glyf_colr_1", "nano_colr0": "glyf_colr_0", "nano_picosvg": "picosvg", "nano_untouchedsvg": "untouchedsvg"}[kind]
    if solid_only:  # what COLRv0 can express: solid fills, no group opacity
        from vmc.props import c03

        glyphs, over = scenes.mk(L.full(scenes.DIMS, {"place": "r30", "grp": "none", "seqlen": 2}))
        c03._solidify(glyphs)
    else:
        glyphs, over = scenes.mk(L.full(scenes.DIMS, {"place": "r30", "copy_paint": "rad_focal_fr", "seqlen": 2}))
    if empty_middle:
        # three sources, the middle one paints nothing: colour glyphs are then not contiguous in glyph order
        from vmc.oracles.scene import Glyph

        g3, _ = scenes.mk(L.full(scenes.DIMS, {"nglyphs": 3, "place": "r30"}))
        glyphs = [g3[0], Glyph(g3[1].cps, g3[1].vb, []), g3[2]]
    if many:
        from vmc.oracles import aff
        from vmc.oracles.scene import Glyph, Shape, Solid, OUT, place

        cols = ["red", "blue", "green", "orange", "purple"]
        glyphs = [Glyph((0xE000 + i,), (0, 0, 100, 100), [Shape(place(OUT[o], aff.tr(10 + 4 * i, 12 + 3 * i)), Solid(cols[i]), label=o)])
                  for i, o in enumerate(("tri", "quad", "blob", "oval", "ring"))]
        glyphs.append(Glyph((0xE005,), (0, 0, 100, 100), [Shape(place(OUT["ell"], aff.tr(5, 8)), Solid("#FE8801"), label="ell"),
                                                           Shape("M60,55 L92,58 L88,90 L70,84 Z", Solid("#222222"), label="p1")]))
        glyphs.append(Glyph((0xE006,), (0, 0, 100, 100), [Shape(place(OUT["ell"], aff.tr(40, 30)), Solid("#663301"), label="ell-copy"),
                                                           Shape("M4,56 L30,52 L36,80 L18,94 L6,78 Z", Solid("#222222"), label="p2")]))
    over["color_format"] = fmt
    over["linegap"] = linegap
    raw = fmt.startswith("untouched")
    cfg, font, data = inproc.build_direct([(g.cps, sc.raw_svg(g) if raw else g.svg()) for g in glyphs], over)
    return data


def colour_glyph_names(font):
    from vmc.props.c04 import colour_glyphs

    return colour_glyphs(font)


def pictures(font, cps, FG=FG):
    """{table: at(p)} for the glyph reached from the codepoints"""
    from vmc.oracles.colr_eval import ColrPicture
    from vmc.oracles.svg_eval import SvgPicture
    from vmc.props import common

    names = shaper.shape(font, cps)
    if len(names) != 1:
        return None, names
    name = names[0]
    out = {}
    if "COLR" in font:
        pic = ColrPicture(font, FG)
        has = (name in pic.colr.ColorLayers) if pic.colr.version == 0 else pic.base_paint(name) is not None
        if has:
            out["COLR"] = lambda p, pic=pic: pic.at(name, p)
    if "SVG " in font:
        gid = font.getGlyphID(name)
        docs = [d for d in common.svg_docs(font) if d[1] <= gid <= d[2]]
        if len(docs) == 1 and f'id="glyph{gid}"' in docs[0][0]:
            sp = SvgPicture(docs[0][0], FG)
            out["SVG"] = lambda p, sp=sp, gid=gid: sp.at_element(f"glyph{gid}", (p[0], -p[1]))
    if "CBDT" in font:
        for si, strike in enumerate(font["CBDT"].strikeData):
            if name in strike:
                from PIL import Image

                bm = strike[name]
                im = Image.open(io.BytesIO(bm.imageData)).convert("RGBA")
                ppem = font["CBLC"].strikes[si].bitmapSizeTable.ppemY
                s = ppem / font["head"].unitsPerEm
                px = im.load()
                w, h = im.size
                bx, by = bm.metrics.BearingX, bm.metrics.BearingY

                def at(p, px=px, w=w, h=h, s=s, bx=bx, by=by):
                    i = int(p[0] * s - bx)
                    j = int(by - p[1] * s)
                    if not (0 <= i < w and 0 <= j < h):
                        return (0, 0, 0, 0)
                    r, g, b, a_ = px[i, j]
                    a_ /= 255
                    return (r / 255 * a_, g / 255 * a_, b / 255 * a_, a_)

                out["CBDT"] = at
    return name, out


def run_mc(w, data, a, keep):
    from vmc.drive import cli

    (w / "in.ttf").write_bytes(data)
    args = ["--build_dir", str(w / "build"), "--output_file", "Font.ttf"]
    if a["bitmaps"]:
        args.append("--bitmaps")
    if "svg" in a["kind"]:
        args.append(f"--colr_version={a['colr_version']}")
    args.append("--keep_glyph_names" if keep else "--nokeep_glyph_names")
    r = cli.maximum_color(w, args + [str(w / "in.ttf")])
    out = w / "build" / "Font.ttf"
    return r, (out.read_bytes() if out.exists() else None)


def execute(dev):
    from fontTools.ttLib import TTFont
    from vmc.drive import cli, inproc

    inproc.init()
    dev = {k: v for k, v in dev.items() if k != "_"}
    a = lattice.full(DIMS, dev)
    data = third_party(a) if a["kind"].startswith("third") else nano_font(a["kind"], solid_only="svg" in a["kind"] and a["colr_version"] == 0, empty_middle=a["empty_middle"], many=a["many"], linegap=a["linegap"])
    w = cli.mkscratch("c12")
    try:
        r, out = run_mc(w, data, a, True)
        if r.returncode != 0 or out is None:
            return [bad("C12.runs", f"maximum_color exits {r.returncode}: {(r.stderr or '')[-400:]}")]
        vs = []
        fin = TTFont(io.BytesIO(data), lazy=False)
        fout = TTFont(io.BytesIO(out), lazy=False)
        named = fin["post"].formatType == 2
        # ---- the font is otherwise unaltered ------------------------------------------
        fi, fo = facts.all_facts(fin), facts.all_facts(fout)
        if named:
            if dict(fi["cmap"]) != dict(fo["cmap"]):
                vs.append(bad("C12.cmap-unchanged", f"cmap differs: {sorted(set(fi['cmap']) ^ set(fo['cmap']))[:4]}"))
            hin, hout = dict(fi["hmtx"]), dict(fo["hmtx"])
            for g, m in hin.items():
                if g not in hout:
                    vs.append(bad("C12.glyphs-kept", f"glyph {g} disappeared"))
                elif hout[g][0] != m[0]:
                    vs.append(bad("C12.advances-unchanged", f"advance of {g}: {m[0]} -> {hout[g][0]}"))
            oin, oout = dict(fi["outlines"]), dict(fo["outlines"])
            for g, o in oin.items():
                if g in oout and oout[g] != o:
                    vs.append(bad("C12.outlines-unchanged", f"outline of {g} changed"))
            for tag in ("GSUB", "GPOS", "GDEF"):
                if fi.get(tag) != fo.get(tag):
                    vs.append(bad("C12.layout-unchanged", f"{tag} name-keyed facts changed"))
            orig = "colr" if "COLR" in fin else None
            if orig and fi["colr"] != fo["colr"]:
                vs.append(bad("C12.original-colour-table-unchanged", "COLR name-keyed facts changed"))
        else:
            # no names to key on: the codepoint -> (advance, outline) relation must be unchanged
            ci, co = fin.getBestCmap(), fout.getBestCmap()
            if set(ci) != set(co):
                vs.append(bad("C12.cmap-unchanged", f"mapped codepoints differ: {sorted(set(ci) ^ set(co))[:4]}"))
            oin, oout = dict(fi["outlines"]), dict(fo["outlines"])
            for cp in set(ci) & set(co):
                if fin["hmtx"][ci[cp]][0] != fout["hmtx"][co[cp]][0]:
                    vs.append(bad("C12.advances-unchanged", f"advance of U+{cp:04X}: {fin['hmtx'][ci[cp]][0]} -> {fout['hmtx'][co[cp]][0]}"))
                if oin[ci[cp]] != oout[co[cp]]:
                    vs.append(bad("C12.outlines-unchanged", f"outline of U+{cp:04X} changed"))
        if "SVG " in fin:
            # the original OT-SVG pictures must survive (documents may be re-indexed by the reorder)
            pass
        # ---- the complementary tables are there ------------------------------------------
        want = {"COLR", "SVG "} | ({"CBDT", "CBLC"} if a["bitmaps"] else set())
        missing = [t for t in want if t not in fout]
        if missing:
            vs.append(bad("C12.tables-added", f"missing {missing}"))
        if "svg" in a["kind"] and "COLR" in fout and fout["COLR"].version != a["colr_version"]:
            vs.append(bad("C12.colr-version", f"COLR version {fout['COLR'].version}, requested {a['colr_version']}"))
        if fout["post"].formatType != 2:
            vs.append(bad("C12.glyph-names", f"--keep_glyph_names but post format {fout['post'].formatType}"))
        # ---- all colour tables paint the same picture, and the same as the input ------------
        cps_in = [(cp,) for cp in sorted(fin.getBestCmap())]
        if "GSUB" in fin:
            for ligs in shaper.ligature_lookups(fin):
                rev = {g: c for c, g in fin.getBestCmap().items()}
                for first, ls in ligs.items():
                    for l in ls:
                        if first in rev and all(c in rev for c in l.Component):
                            cps_in.append(tuple([rev[first]] + [rev[c] for c in l.Component]))
        compared = 0
        for cps in cps_in:
            name_i, pin = pictures(fin, cps)
            name_o, pout = pictures(fout, cps)
            if not pin:
                continue
            if not pout or name_o is None:
                vs.append(bad("C12.pictures-agree", f"{[hex(c) for c in cps]} no longer reaches a colour glyph"))
                continue
            adv = fout["hmtx"][name_o][0]
            asc, desc = fout["hhea"].ascent, fout["hhea"].descent
            probes = picture.lattice(-50, max(adv, 600) + 50, desc - 50, asc + 50, 22)
            ref_tab, ref = next(iter(pin.items()))
            if not any(ref(p)[3] > 0 for p in probes):
                # a colour glyph that paints nothing (an empty source): nothing to add; whatever is there must paint nothing
                for tab, at in pout.items():
                    if any(at(p)[3] > 0 for p in probes):
                        vs.append(bad("C12.pictures-agree", f"{[hex(c) for c in cps]}: input paints nothing, output {tab} paints something"))
                continue
            # a bitmap has no foreground colour: resvg paints currentColor black
            ref_black = next(iter(pictures(fin, cps, (0.0, 0.0, 0.0, 1.0))[1].values()))
            for tab, at in pout.items():
                vector = tab != "CBDT"
                if vector:
                    st = picture.compare(ref, at, probes, 2.0)
                else:
                    st = picture.compare(ref_black, at, probes, 14.0, theta=6 / 255, tau=48 / 255)
                compared += 1
                if st["bad"] > (0 if vector else max(3, st["valid"] // 50)):
                    sig = "cbdt-palette-variables" if (tab == "CBDT" and a["palettes"] == 2) else None
                    vs.append(bad("C12.pictures-agree", f"{[hex(c) for c in cps]} ({name_o}): output {tab} differs from input {ref_tab} on {st['bad']} of {st['valid']} probes, e.g. {st['first'][:1]}", sig=sig))
            if {"COLR", "SVG"} - set(pout):
                vs.append(bad("C12.pictures-agree", f"{[hex(c) for c in cps]}: colour tables painting it: {sorted(pout)}"))
            if a["bitmaps"] and "CBDT" not in pout and adv > 0:
                vs.append(bad("C12.pictures-agree", f"{[hex(c) for c in cps]}: no CBDT bitmap"))
        # ---- structure --------------------------------------------------------------------------
        for c, d in structure.check(out, want_names=True)[:4]:
            vs.append(bad(c.replace("C07.", "C12.struct-"), d))
        # ---- glyph names stripped on request: same font except post ----------------------------
        if not a["keep"]:
            r2, out2 = run_mc(w, data, a, False)
            if r2.returncode != 0 or out2 is None:
                vs.append(bad("C12.runs", f"--nokeep_glyph_names run exits {r2.returncode}: {(r2.stderr or '')[-300:]}"))
            else:
                f2 = TTFont(io.BytesIO(out2))
                if f2["post"].formatType != 3:
                    vs.append(bad("C12.glyph-names", f"names not stripped: post format {f2['post'].formatType}"))
                k = TTFont(io.BytesIO(out))
                for tag in sorted(set(k.reader.keys()) | set(f2.reader.keys())):
                    if tag in ("post", "head"):
                        continue
                    if tag not in f2.reader or tag not in k.reader or k.reader[tag] != f2.reader[tag]:
                        vs.append(bad("C12.strip-changes-only-post", f"table {tag} differs between the kept-names and stripped-names outputs"))
        if not vs:
            vs.append(ok("C12.ok", f"{a['kind']}:{'+'.join(sorted(t.strip() for t in fout.keys() if t.strip() in ('COLR', 'SVG', 'CBDT')))}:cmp{min(compared, 9)}"))
        return vs
    finally:
        shutil.rmtree(w, ignore_errors=True)


def run(report, tier, only=None):
    from vmc.oracles import selftest

    selftest.run(report)
    k = int(only) if only and only.isdigit() else K[tier]
    import vmc.core.pool as pool

    old = pool.nproc
    pool.nproc = lambda: 6  # each maximum_color run is itself a parallel ninja build
    try:
        extra = [{"kind": "nano_picosvg", "colr_version": 0}, {"kind": "nano_untouchedsvg", "colr_version": 0},
                 {"kind": "nano_colr1", "bitmaps": True}, {"kind": "nano_picosvg", "bitmaps": True}, {"kind": "nano_colr1", "keep": False},
                 {"kind": "nano_picosvg", "bitmaps": True, "empty_middle": True}, {"kind": "nano_colr1", "bitmaps": True, "empty_middle": True},
                 {"bitmaps": True, "palettes": 2}, {"kind": "nano_untouchedsvg", "empty_middle": True},
                 {"kind": "nano_picosvg", "many": True}, {"kind": "nano_colr1", "many": True}, {"kind": "nano_untouchedsvg", "many": True},
                 {"kind": "nano_picosvg", "linegap": 300}, {"kind": "nano_untouchedsvg", "linegap": 300}, {"kind": "nano_colr1", "linegap": 300, "bitmaps": True}]
        lattice.explore(report, DIMS, k, execute, relevant=relevant, timeout=1200, extra_states=extra)
    finally:
        pool.nproc = old
    report.extra["deviation_bound"] = k
    report.rule = (
        "E1 over input kind (nanoemoji COLRv1/COLRv0/picosvg/untouchedsvg, third-party COLRv1/COLRv0 built with fontTools) x --bitmaps x "
        "--colr_version x --keep_glyph_names x space glyph x kerning+mark lookups x 1/2 palettes x glyph names x zero-width colour glyph x hhea ascent/descent differing from the typo metrics x seven colour glyphs with a shared shape (an OT-SVG document for glyph ids 7..8), "
        "<= %d deviations, each through the real `maximum_color` command; name-keyed facts of input and output (cmap, advances, outlines, "
        "GSUB/GPOS/GDEF, original COLR), tables added, pictures of all colour tables compared point-wise for every reachable colour glyph "
        "(CBDT through its metrics), O-STRUCT, stripped-names run equal except post; distinct = input kind x tables" % k
    )
