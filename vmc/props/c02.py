"""C02 - OT-SVG glyph documents render the same picture as their sources."""
from vmc.core import lattice
from vmc.core.listing import ok, bad
from vmc.gen import scenes
from vmc.oracles import scene as sc
from vmc.props import common

DIMS = {k: v for k, v in scenes.DIMS.items() if k != "clipq"}
DIMS["fmt"] = ["picosvg", "picosvgz", "untouchedsvg", "untouchedsvgz"]
DIMS["pretty"] = [False, True]
K = {"quick": 2, "thorough": 2}
# thorough: every state with <= 2 deviations over all dimensions, plus every state with 3 deviations over the dimensions that
# meet in the code under test (the full level-3 lattice, ~350 000 states, is available with `--only 3` and was run once: DESIGN 10)
CORE3 = ("user", "tol", "fmt", "stack", "place", "donor_paint", "copy_paint", "twin", "shared_grad", "grad_twice", "vb_b", "grp",
         "nglyphs", "where", "pretty")


def relevant(dev):
    if not scenes.relevant(dev):
        return False
    # untouched documents are copied verbatim: reuse tolerance cannot reach them
    if dev.get("fmt", "picosvg").startswith("untouched") and "tol" in dev:
        return False
    return True


def execute(dev):
    from vmc.drive import inproc

    dev = {k: v for k, v in dev.items() if k != "_"}
    a = lattice.full(DIMS, dev)
    glyphs, over = scenes.mk(a)
    over["pretty_print"] = a["pretty"]
    raw = a["fmt"].startswith("untouched")
    cfg = inproc.base_config(**over)
    texts = [(g.cps, sc.raw_svg(g) if raw else g.svg()) for g in glyphs]
    try:
        cfg, font, data = inproc.build_direct(texts, over)
    except Exception as e:
        kind = type(e).__name__
        if kind in common.ACCEPTED_ERRORS and common.error_predicted(glyphs, cfg):
            return [{"status": "rejected", "clause": "C02.build", "fp": "rejected:" + kind}]
        import traceback
        return [bad("C02.build", f"{kind}: {e} :: {traceback.format_exc()[-400:]}", fp="exc:" + kind)]
    vs = common.otsvg_checks("C02", glyphs, cfg, font)
    if raw and "SVG " in font:
        vs += untouched_structure(glyphs, font)
    fp = a["fmt"] + ":" + common.svg_fingerprint(font)
    for v in vs:
        if v["status"] == "ok":
            v["fp"] = fp
    return vs


def untouched_structure(glyphs, font):
    """the wrapper <g> holds the source's children unchanged; only width/height/viewBox/
    enable-background were removed from the root"""
    from lxml import etree
    from vmc.oracles import shaper

    out = []
    docs = common.svg_docs(font)
    for g in glyphs:
        names = shaper.shape(font, g.cps)
        if len(names) != 1:
            continue
        gid = font.getGlyphID(names[0])
        cover = [d for d in docs if d[1] <= gid <= d[2]]
        if len(cover) != 1:
            continue
        root = etree.fromstring(cover[0][0].encode())
        src = etree.fromstring(sc.raw_svg(g).encode())
        for k in ("width", "height", "viewBox", "enable-background"):
            if root.get(k) is not None:
                out.append(bad("C02.untouched-root-attrs", f"root keeps {k}"))
        kids = [e for e in root if isinstance(e.tag, str)]
        if len(kids) != 1 or kids[0].get("id") != f"glyph{gid}":
            out.append(bad("C02.untouched-wrapper", f"root children: {[k.get('id') for k in kids]}"))
            continue
        def c14(e):
            # pretty_print only adds whitespace-only text nodes; they are not content
            e = etree.fromstring(etree.tostring(e, method="c14n", exclusive=True))
            for x in e.iter():
                if x.text is not None and not x.text.strip():
                    x.text = None
                if x.tail is not None and not x.tail.strip():
                    x.tail = None
            e.tail = None
            return etree.tostring(e, method="c14n", exclusive=True)

        got = [c14(e) for e in kids[0] if isinstance(e.tag, str)]
        exp = [c14(e) for e in src if isinstance(e.tag, str)]
        if got != exp:
            out.append(bad("C02.untouched-children", f"children of glyph{gid} differ from the source's"))
    return out


def run(report, tier, only=None):
    from vmc.oracles import selftest

    selftest.run(report)
    k = int(only) if only and only.isdigit() else K[tier]
    deep = 3 if tier == "thorough" and not (only and only.isdigit()) else None
    devs, results = lattice.explore(report, DIMS, k, execute, relevant=relevant, timeout=300, deep_dims=CORE3, deep_k=deep)
    report.extra["deep_sublattice"] = {"dims": [d for d in DIMS if d in CORE3], "bound": deep} if deep else None
    probes = {"valid": 0, "skipped": 0, "bad": 0, "inconclusive_layers": 0}
    for r in results:
        for v in r:
            for kk, n in v.get("stats", {}).items():
                probes[kk] += n
    report.extra["probes"] = probes
    report.extra["deviation_bound"] = k
    deep_note = " (plus every assignment with 3 non-default dimensions among the %d core dimensions listed in the evidence)" % len([d for d in DIMS if d in CORE3]) if deep else ""
    report.rule = (
        "E1: every assignment with <= %d non-default dimensions{DEEP} of the scene/config lattice x "
        "{picosvg, picosvgz, untouchedsvg, untouchedsvgz} x pretty_print is compiled with the real "
        "_generate_color_font, saved and reloaded; the SVG document covering the glyph id O-SHAPE reaches "
        "must hold exactly one element glyph<ID>, whose point-wise SVG semantics in OT-SVG coordinates "
        "must equal the scene-model picture; distinct = format + (#documents, <use> count, gradient kinds)" % k
    ).replace("{DEEP}", deep_note)
    report.assumptions += [
        "fontTools decompiles the SVG table (incl. gunzip) correctly; lxml parses the documents as a renderer would",
        "the SVG evaluator implements the subset of SVG 1.1/2 that nanoemoji reads and writes (validated against resvg in the self-test)",
    ]
