"""C14 - Bitmap glyphs carry the right image at the right place."""
from vmc.core import lattice
from vmc.core.listing import ok, bad
from vmc.gen import pngs
from vmc.oracles import shaper

DIMS = {
    "height": [128, 16, 32, 64, 127, 130, 136, 255, 256],
    "aspect": [[1, 1], [85, 128], [1, 2], [2, 1], [3, 1]],
    "width": ["em", 0, "2em", 100, 1275],
    "metrics": [[1024, 950, -250], [1000, 800, -200], [2048, 1900, -500], [100, 100, 0], [1000, 1000, 0], [16384, 15000, -1000],
                [1000, 3000, -1000]],  # an em four times the upem: ppem is small, line height and bitmap height round apart
    "fmt": ["cbdt", "sbix"],
    "order": ["consecutive", "one_gap", "two_gaps", "coloured_notdef"],
    "nglyphs": [2, 1, 3],
    # the configured bitmap_resolution: equal to the PNG's height (what the pipeline's resvg -h gives), or not
    # (PNGs handed to write_font / _generate_color_font directly): placement is by the image's own height
    "res_cfg": ["height", 128, 100],
    # every glyph's PNG has the same width, or each its own (metrics are per glyph, not per strike)
    "widths": ["same", "varying"],
    # the line gap belongs to hhea / OS/2 only: strike size and placement do not move with it
    "linegap": [0, 200],
}
K = {"quick": 3, "thorough": 6}  # thorough: every state with <= 6 of the 10 dimensions off their default (130 072 states)
INT8 = range(-128, 128)


def sequences(order, n):
    """codepoint sequences whose glyph order has the requested gaps between colour glyphs"""
    if order == "consecutive":
        return [(0xE000,), (0xE001,), (0xE002,)][:n]
    if order == "coloured_notdef":
        # a source that draws .notdef (given through the glyph map): colour glyph ids 0, 2, 3, ... with the blank space glyph between
        return [()] + [(0xE000,), (0xE001,), (0xE002,)][:n]
    if order == "one_gap":
        # a sequence-only codepoint gets a blank glyph in between
        return [(0xE000,), (0xE001, 0x200D, 0xE005), (0xE002,)][:n]
    # a singleton that is also a member of a sequence, plus another sequence
    return [(0xE000,), (0xE000, 0x200D, 0xE006), (0xE002, 0xE007)][:n]


def execute(dev):
    if dev.get("kind") == "pipeline":
        return exec_pipeline(dev)
    from vmc.drive import inproc
    from nanoemoji.png import PNG

    dev = {k: v for k, v in dev.items() if k != "_"}
    a = lattice.full(DIMS, dev)
    upem, asc, desc = a["metrics"]
    em = asc - desc
    h = a["height"]
    w = max(1, round(h * a["aspect"][0] / a["aspect"][1]))
    width = {"em": em, "2em": 2 * em}.get(a["width"], a["width"])
    fmt = a["fmt"]
    seqs = sequences(a["order"], a["nglyphs"])
    ws = [w] * len(seqs) if a["widths"] == "same" else [max(1, round(w * f)) for f in (0.7, 1.0, 1.35, 0.85)[: len(seqs)]]
    images = [pngs.png(ws[i], h, i) for i in range(len(seqs))]
    over = {"upem": upem, "ascender": asc, "descender": desc, "width": width, "color_format": fmt,
            "bitmap_resolution": h if a["res_cfg"] == "height" else a["res_cfg"], "output_file": "x.ttf", "linegap": a["linegap"]}
    # ---- reference model: what must be rejected -------------------------------------
    s = h / em  # exact pixels per font unit
    advs_units = [max(width, round(em * wi / h)) for wi in ws]
    adv_px = max(advs_units) * s
    must_raise = fmt == "cbdt" and max(max(ws), h) > 255
    exp_top = asc * s  # pixels above the baseline of the top edge
    exp_left = max((au * s - wi) / 2 for au, wi in zip(advs_units, ws))
    w = max(ws)
    # CBDT small metrics and CBLC line metrics are 8-bit fields; within one pixel of a limit
    # either outcome is accepted (rounding, and the one-pixel nudge of the offsets)
    may_raise = must_raise or (fmt == "cbdt" and (
        exp_top > 126.5 or exp_top < -129.5 or (h - exp_top) > 127.5 or exp_left > 126.5 or adv_px > 254.5 or max(w, h) > 254))
    # BitmapMetrics.create applies the 8-bit limits of the vertical offset and of
    # bitmap_resolution to sbix builds as well (sbix itself could hold more): such a rejection
    # is an error, not a wrong font, and the statement does not forbid it
    may_raise = may_raise or (fmt == "sbix" and (exp_top > 126.5 or exp_top < -129.5 or h > 254))
    # the outlined .notdef with an advance beyond int16 gives hhea.minRightSideBearing a value it cannot hold: a metric
    # combination the font format cannot represent, rejected by fontTools when the font is saved
    may_raise = may_raise or (a["order"] == "coloured_notdef" and max(advs_units) > 32767)
    try:
        names = None
        if a["order"] == "coloured_notdef":
            from nanoemoji.glyph import glyph_name

            names = [".notdef" if sq == () else glyph_name(sq) for sq in seqs]
        cfg, font, data = inproc.build_direct([(sq, None) for sq in seqs], over, bitmaps=[PNG(b) for b in images], names=names)
    except Exception as e:
        if may_raise:
            return [{"status": "rejected", "clause": "C14.build", "fp": f"rejected:{fmt}:{type(e).__name__}"}]
        import traceback
        return [bad("C14.build", f"{type(e).__name__}: {e} :: {traceback.format_exc()[-300:]}")]
    if must_raise:
        return [bad("C14.unrepresentable-rejected", f"{w}x{h} bitmap accepted into CBDT")]
    out = []
    exp_ppem = round(upem * h / em)
    proportional = width == 0
    for i, sq in enumerate(seqs):
        w = ws[i]
        square = w == h
        adv_units = advs_units[i]
        names = [".notdef"] if sq == () else shaper.shape(font, sq)
        if len(names) != 1:
            out.append(bad("C14.reachable", f"{sq} -> {names}"))
            continue
        name = names[0]
        hadv = font["hmtx"][name][0]
        if fmt == "cbdt":
            found = [(si, st[name]) for si, st in enumerate(font["CBDT"].strikeData) if name in st]
            if len(found) != 1:
                out.append(bad("C14.one-bitmap", f"{name}: {len(found)} bitmaps"))
                continue
            si, bm = found[0]
            if bytes(bm.imageData) != images[i]:
                out.append(bad("C14.image-bytes", f"{name}: embedded image differs from source {i}"))
            bst = font["CBLC"].strikes[si].bitmapSizeTable
            if bst.ppemX != exp_ppem or bst.ppemY != exp_ppem:
                out.append(bad("C14.ppem", f"strike ppem {bst.ppemX}x{bst.ppemY}, expected round({upem}*{h}/{em}) = {exp_ppem}"))
            m = bm.metrics
            if (m.width, m.height) != (w, h):
                out.append(bad("C14.bitmap-size", f"{name}: metrics say {m.width}x{m.height}, image is {w}x{h}"))
            left, top, adv = m.BearingX, m.BearingY, m.Advance
        else:
            strikes = font["sbix"].strikes
            found = [(p, st.glyphs[name]) for p, st in strikes.items() if name in st.glyphs and st.glyphs[name].imageData]
            if len(found) != 1:
                out.append(bad("C14.one-bitmap", f"{name}: {len(found)} bitmaps"))
                continue
            ppem, g = found[0]
            if bytes(g.imageData) != images[i]:
                out.append(bad("C14.image-bytes", f"{name}: embedded image differs from source {i}"))
            if ppem != exp_ppem:
                out.append(bad("C14.ppem", f"strike ppem {ppem}, expected {exp_ppem}"))
            left, top, adv = g.originOffsetX, g.originOffsetY + h, None
        # vertical: the bitmap box [top-h, top] vs [desc*s, asc*s]
        tol_y = 1.0 if exp_top == max(-128, min(127, exp_top)) or fmt == "sbix" else 2.0
        if abs(top - exp_top) > tol_y + 1e-9:
            out.append(bad("C14.vertical-placement", f"{name}: top of the bitmap at {top}px, em box top at {exp_top:.2f}px (height {h}, ppem {exp_ppem})"))
        # horizontal: centred in the advance; dropped for a non-square bitmap with a fixed width
        hadv_px = hadv * s
        if square or proportional:
            exp_l = (hadv_px - w) / 2
            tol_x = 1.0 if exp_l == max(-128, min(127, exp_l)) or fmt == "sbix" else 2.0
            if abs(left - exp_l) > tol_x + 1e-9:
                out.append(bad("C14.horizontal-placement", f"{name}: left edge at {left}px, expected {exp_l:.2f}px ({w}x{h} bitmap centred in an advance of {hadv_px:.2f}px)"))
        if adv is not None and abs(adv - hadv_px) > 1.0 + 1e-9:
            out.append(bad("C14.pixel-advance", f"{name}: pixel advance {adv}, font advance {hadv} units = {hadv_px:.2f}px"))
        if hadv != adv_units:
            out.append(bad("C14.advance", f"{name}: advance {hadv}, expected max({width}, round({em}*{w}/{h})) = {adv_units}"))
    if fmt == "cbdt":
        gid = {g: i for i, g in enumerate(font.getGlyphOrder())}
        for si, strike in enumerate(font["CBLC"].strikes):
            for st in strike.indexSubTables:
                ids = [gid[n] for n in st.names]
                if ids != list(range(ids[0], ids[0] + len(ids))):
                    out.append(bad("C14.consecutive-runs", f"strike {si} indexes gids {ids}"))
    if not out:
        nstrikes = len(font["CBLC"].strikes) if fmt == "cbdt" else len(font["sbix"].strikes)
        out.append(ok("C14.bitmap", f"{fmt}:strikes{nstrikes}:{'sq' if square else 'wide' if w > h else 'narrow'}:{'prop' if proportional else 'fixed'}"))
    return out


PIPE_SRC = [
    ("emoji_u1f600.svg", '<svg xmlns="http://www.w3.org/2000/svg" viewBox="0 0 128 128"><rect x="10" y="10" width="90" height="60" fill="#E53935"/>'
                         '<circle cx="80" cy="90" r="30" fill="#1E88E5"/></svg>'),
    ("emoji_u1f601_200d_1f602.svg", '<svg xmlns="http://www.w3.org/2000/svg" viewBox="0 0 128 128"><path d="M10,110 L64,10 L118,110 Z" fill="#43A047"/>'
                                    '<rect x="40" y="60" width="50" height="30" fill="#FDD835" opacity="0.6"/></svg>'),
]


def exec_pipeline(case):
    """the command line's own PNG chain (resvg -> pngquant -> zopflipng, the last two optional): the image stored for a source is,
    byte for byte, the PNG of the last stage that is switched on"""
    from fontTools.ttLib import TTFont
    from vmc.drive import cli
    from vmc.oracles import shaper
    import shutil

    w = cli.mkscratch("c14p")
    try:
        files = cli.write_sources(w / "src", PIPE_SRC)
        args = [f"--color_format={case['fmt']}", "--use_pngquant" if case["pngquant"] else "--nouse_pngquant",
                "--use_zopflipng" if case["zopflipng"] else "--nouse_zopflipng"] + files
        r = cli.nanoemoji(w, args, timeout=600)
        out = w / "build" / "Font.ttf"
        if r.returncode != 0 or not out.exists():
            return [bad("C14.pipeline-builds", f"exit {r.returncode}: {(r.stderr or '')[-300:]}")]
        font = TTFont(out)
        last = "zopflipng" if case["zopflipng"] else "pngquant" if case["pngquant"] else "bitmap"
        vs = []
        for f in files:
            cps = [int(x, 16) for x in f.stem[len("emoji_u"):].split("_")]
            names = shaper.shape(font, cps)
            if len(names) != 1:
                vs.append(bad("C14.reachable", f"{f.name} shapes to {names}"))
                continue
            if case["fmt"] == "cbdt":
                data = bytes(font["CBDT"].strikeData[0][names[0]].imageData)
            else:
                data = bytes(next(iter(font["sbix"].strikes.values())).glyphs[names[0]].imageData)
            stages = {st: (w / "build" / st / (f.stem + ".png")) for st in ("bitmap", "pngquant", "zopflipng")}
            have = {st: p_.read_bytes() for st, p_ in stages.items() if p_.exists()}
            if last not in have:
                vs.append(bad("C14.pipeline-builds", f"{f.name}: the build has no {last} PNG (stages present: {sorted(have)})"))
            elif data != have[last]:
                which = [st for st, b in have.items() if b == data]
                vs.append(bad("C14.image-bytes", f"{case['fmt']} pngquant={case['pngquant']} zopflipng={case['zopflipng']}: the image stored for {f.name} "
                                                 f"({len(data)} bytes) is {'the ' + which[0] + ' stage' if which else 'no stage'}'s PNG, the build's final PNG is build/{last}/{f.stem}.png ({len(have[last])} bytes)"))
        return vs or [ok("C14.image-bytes", f"pipeline:{case['fmt']}:{last}")]
    finally:
        shutil.rmtree(w, ignore_errors=True)


def run(report, tier, only=None):
    k = int(only) if only and only.isdigit() else K[tier]
    if only != "pipeline":
        lattice.explore(report, DIMS, k, execute, timeout=120)
    if only in (None, "pipeline"):
        from vmc.core import listing

        cases = [{"kind": "pipeline", "fmt": f, "pngquant": q, "zopflipng": z} for f in ("cbdt", "sbix") for q in (True, False) for z in (True, False)]
        listing.run(report, cases, execute, timeout=900, jobs=8)
    report.extra["deviation_bound"] = k
    report.rule = (
        "E1: all states with <= %d deviations over bitmap height (8) x aspect (5) x configured width (5) x metrics (6) x {cbdt, sbix} x glyph-order "
        "shape (4) x number of glyphs (3) x configured bitmap_resolution (the image height / 128 / 100) x per-glyph widths x linegap, built with the real _generate_color_font from generated PNGs; image bytes, ppem, placement judged with the "
        "exact pixel size, pixel advance, consecutive runs; unrepresentable cases must raise; plus the command line's PNG chain: {cbdt, sbix} x pngquant on/off x "
        "zopflipng on/off, real builds, stored bytes == the PNG of the last stage switched on; distinct = format, #strikes, bitmap shape, width mode" % k
    )
