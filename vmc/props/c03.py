"""C03 - COLRv0 and glyf builds lose only what those formats cannot express."""
from fontTools.pens.boundsPen import ControlBoundsPen

from vmc.core import lattice
from vmc.core.listing import ok, bad
from vmc.gen import scenes
from vmc.oracles import aff, flatten, paths, picture, shaper
from vmc.oracles.scene import Group, Shape, Solid
from vmc.props import common

KEEP = ("vb_origin", "vb_size", "vb_aspect", "metrics", "width", "user", "tol", "keep", "outline", "stack", "place",
        "donor_paint", "copy_paint", "seqlen", "nglyphs", "where", "vb_b", "clone")
DIMS = {k: scenes.DIMS[k] for k in KEEP}
DIMS["grp"] = ["none"] + [g for g in scenes.DIMS["grp"] if g != "none"]
DIMS["fmt"] = ["glyf_colr_0", "glyf", "cff_colr_0", "cff2_colr_0"]
DIMS["solidify"] = [True, False]
FULL = dict(scenes.DIMS)
FULL.update(DIMS)
K = {"quick": 2, "thorough": 2}
# thorough: <= 2 deviations over all dimensions + every state with 3 deviations among the core dimensions (`--only 3` = full level 3)
CORE3 = ("outline", "place", "where", "donor_paint", "copy_paint", "grp", "stack", "user", "tol", "vb_b", "nglyphs")
SOLIDS = ["#00C0FF", "#FFA000C0", "#8020F0", "#40FF40"]


def _solidify(glyphs):
    n = [0]

    def fix(node):
        if isinstance(node, Group):
            for k in node.kids:
                fix(k)
        elif node.paint.kind != "solid":
            node.paint = Solid(SOLIDS[n[0] % len(SOLIDS)])
            n[0] += 1

    for g in glyphs:
        for node in g.nodes:
            fix(node)


def _solid_only(g):
    # a semi-transparent foreground colour is something COLRv0 cannot express (index 0xFFFF
    # carries no alpha), so such a glyph is outside the image claim
    return all(isinstance(n, Shape) and n.paint.kind == "solid" and not (n.paint.current and n.opacity != 1) for n in g.nodes)


def _placed_outlines(font, name, fmt):
    """[(polyline, label)] of the outlines the glyph places"""
    gs = font.getGlyphSet()
    if fmt == "glyf":
        g = font["glyf"][name]
        if g.isComposite():
            out = []
            for comp in g.components:
                base, m = comp.getComponentInfo()
                out.append((paths.polyline(paths.glyph_path(gs, base), tuple(m)), base))
            return out
        if g.numberOfContours == 0:
            return []
        return [(paths.polyline(paths.glyph_path(gs, name)), name)]
    return [(l.poly(), l.name) for l in flatten.colr_leaves(font, name, common.FG)]


def execute(dev):
    from vmc.drive import inproc

    dev = {k: v for k, v in dev.items() if k != "_"}
    a = lattice.full(FULL, dev)
    glyphs, over = scenes.mk(a)
    if a["solidify"]:
        _solidify(glyphs)
    fmt = a["fmt"]
    cfg = inproc.base_config(**over)
    try:
        cfg, font, data = inproc.build_direct([(g.cps, g.svg()) for g in glyphs], over)
    except Exception as e:
        kind = type(e).__name__
        if kind in common.ACCEPTED_ERRORS and common.error_predicted(glyphs, cfg):
            return [{"status": "rejected", "clause": "C03.build", "fp": "rejected:" + kind}]
        import traceback
        return [bad("C03.build", f"{kind}: {e} :: {traceback.format_exc()[-300:]}", fp="exc:" + kind)]
    out = []
    user = common.user_affine(cfg)
    degenerate = abs(aff.det(user)) < 1e-12
    tol = cfg.reuse_tolerance if cfg.reuse_tolerance > 0 else 0
    image_glyphs = 0
    gs = font.getGlyphSet()
    for g in glyphs:
        names = shaper.shape(font, g.cps)
        if len(names) != 1:
            out.append(bad("C03.reachable", f"{g.cps} -> {names}"))
            continue
        name = names[0]
        adv = font["hmtx"][name][0]
        M, ref_at = common.glyph_reference(g, cfg, adv)
        src = [] if degenerate else g.leaves()
        if fmt != "glyf" and "COLR" not in font:
            if src:
                out.append(bad("C03.colr-present", "no COLR table"))
            continue
        placed = _placed_outlines(font, name, fmt)
        scale = 1.0
        if fmt != "glyf":
            lv = flatten.colr_leaves(font, name, common.FG)
            scale = max([1.0] + [max(abs(l.matrix[0]) + abs(l.matrix[2]), abs(l.matrix[1]) + abs(l.matrix[3])) for l in lv])
        else:
            gg = font["glyf"][name]
            if gg.isComposite():
                for comp in gg.components:
                    m = comp.getComponentInfo()[1]
                    scale = max(scale, abs(m[0]) + abs(m[2]), abs(m[1]) + abs(m[3]))
        delta = common.unit_tol(cfg) * scale + tol
        # --- every source outline placed exactly once, nothing else ------------------
        if fmt == "glyf" and len(placed) == 1 and len(src) > 1 and not font["glyf"][name].isComposite():
            # the components were decomposed into one simple glyph (a component scale beyond what a
            # TrueType composite can hold) and overlaps were removed: individual outlines are gone, so the
            # clause becomes an equality of coverage: inside every source shape <=> inside the glyph
            own_ = paths.glyph_path(gs, name)
            miss = extra_ = 0
            pts = common.region_probes(cfg, adv, user, 20)
            for leaf in src:
                pts += common.leaf_probes(leaf, M, 5)
            for p in pts:
                refs = picture.stencil(lambda q: ref_at(q), p, delta)
                if all(r[3] > 0 for r in refs) and not own_.contains(p):
                    miss += 1
                if all(r[3] == 0 for r in refs) and own_.contains(p):
                    extra_ += 1
            if miss or extra_:
                out.append(bad("C03.outline-placement", f"{name}: decomposed glyph covers {extra_} probes outside every source shape and misses {miss} probes inside one"))
        elif len(placed) != len(src) and not (fmt == "glyf" and len(src) == 1):
            out.append(bad("C03.outline-count", f"{name}: {len(placed)} placed outlines for {len(src)} source shapes"))
        else:
            srcp = [paths.polyline(l.path, M) for l in src]
            used = set()
            in_order = True
            for i, sp in enumerate(srcp):
                best = None
                for j, (pp, _) in enumerate(placed):
                    if j in used:
                        continue
                    d = paths.hausdorff(sp, pp)
                    if j == i and d <= delta + (paths.spacing(sp) + paths.spacing(pp)) / 2:
                        best = (d, j)  # congruent outlines may coincide: the counterpart in the same position wins a tie
                        break
                    if best is None or d < best[0]:
                        best = (d, j)
                allowed = delta + (paths.spacing(sp) + paths.spacing(placed[best[1]][0])) / 2 if best else 0
                if best is None or best[0] > allowed:
                    out.append(bad("C03.outline-placement", f"{name}: source shape {src[i].label} has no counterpart within {allowed:.1f} units (closest {best and round(best[0], 1)})"))
                    continue
                used.add(best[1])
                if best[1] != i:
                    in_order = False
            if fmt != "glyf" and _solid_only(g) and not in_order and not any(v["status"] == "violation" for v in out):
                out.append(bad("C03.z-order", f"{name}: COLRv0 layers are not in source z-order"))
        # --- no other visible geometry: coverage of the glyph's own outline -----------
        own = paths.glyph_path(gs, name)
        probes = common.region_probes(cfg, adv, user, 20)
        extra = 0
        zero_area = abs(own.area) < 1.0  # e.g. the two-point extents contour of a COLRv0 base glyph: a probe may sit exactly on it
        for p in probes:
            if not zero_area and own.contains(p):
                refs = picture.stencil(lambda q: ref_at(q), p, delta)
                if all(r[3] == 0 for r in refs):
                    extra += 1
        if extra:
            out.append(bad("C03.no-extra-geometry", f"{name}: own outline covers {extra} probes that no source shape reaches"))
        if fmt == "glyf":
            continue
        # --- COLRv0 image claim for solid, group-free sources -------------------------
        if _solid_only(g) and not degenerate:
            image_glyphs += 1
            lv = flatten.colr_leaves(font, name, common.FG)
            for i, (l, s) in enumerate(zip(lv, src)):
                exp = s.paint.at((0, 0), s.bbox, common.FG)
                exp = (exp[0], exp[1], exp[2], exp[3] * s.opacity)
                got = l.fill_at((0, 0))
                if max(abs(x - y) for x, y in zip(exp, got)) > 1.5 / 255:
                    out.append(bad("C03.layer-colour", f"{name} layer {i}: palette gives {tuple(round(v, 3) for v in got)}, source {tuple(round(v, 3) for v in exp)}"))
            for v in common.colr_checks("C03", [g], cfg, font, G=20):
                if v["status"] == "violation":
                    out.append(v)
        # --- base glyph's own bounds cover all layers ---------------------------------
        if src:
            bp = ControlBoundsPen(gs)
            gs[name].draw(bp)
            bb = bp.bounds
            lb = [paths.bounds(pp) for pp, _ in placed if pp]
            if lb:
                u = (min(b[0] for b in lb), min(b[1] for b in lb), max(b[2] for b in lb), max(b[3] for b in lb))
                if bb is None:
                    if (u[2] - u[0]) * (u[3] - u[1]) > 0:
                        out.append(bad("C03.base-bounds", f"{name}: base glyph has no extents but layers span {tuple(round(v) for v in u)}"))
                else:
                    pr = max(bb[0] - u[0], bb[1] - u[1], u[2] - bb[2], u[3] - bb[3])
                    if pr > 1.5 * scale + 0.01:  # every component offset and every point is rounded on its own
                        out.append(bad("C03.base-bounds", f"{name}: layers protrude {pr:.1f} units beyond the base glyph's bounds {bb}"))
    if not out:
        out.append(ok("C03.ok", f"{fmt}:image{image_glyphs}:{common.graph_fingerprint(font) if fmt != 'glyf' else 'glyf'}"))
    return out


def run(report, tier, only=None):
    from vmc.oracles import selftest

    selftest.run(report)
    k = int(only) if only and only.isdigit() else K[tier]
    deep = 3 if tier == "thorough" and not (only and only.isdigit()) else None
    lattice.explore(report, DIMS, k, execute, relevant=scenes.relevant, timeout=300, deep_dims=CORE3, deep_k=deep)
    report.extra["deep_sublattice"] = {"dims": [d for d in DIMS if d in CORE3], "bound": deep} if deep else None
    # the plain glyf build has its own code path (components, single-component collapse): a second
    # lattice with glyf as the base format, so that two scene deviations are explored under it as well
    dims_glyf = {k_: v for k_, v in DIMS.items() if k_ != "fmt"}
    dims_glyf["fmt"] = ["glyf"]
    lattice.explore(report, dims_glyf, k, lambda dev: execute(dict(dev, fmt="glyf")), relevant=scenes.relevant, timeout=300, tag="glyf", deep_dims=CORE3, deep_k=deep)
    report.extra["deviation_bound"] = k
    if deep:
        report.assumptions.append("thorough tier: every state with <= 2 deviations over all dimensions plus every state with 3 deviations among the core dimensions listed under deep_sublattice in the evidence")
    report.rule = (
        "E1 over the scene/config lattice x {glyf_colr_0, glyf, cff_colr_0, cff2_colr_0} x {solid-only, with gradients}, <= %d deviations; "
        "placed outlines (COLRv0 layers / glyf components) are matched one-to-one with the source shapes by Hausdorff distance, "
        "the glyph's own outline must not cover anything no source reaches, and for solid group-free sources the layer order, "
        "palette colour+alpha, picture and base-glyph bounds are checked; distinct = format, #image-claim glyphs, layer counts" % k
    )
    report.assumptions += ["fill of overlaps of mirrored components in plain glyf builds is not claimed (coverage clause is one-directional)"]
