"""C08 - The build is a function of its inputs: output bytes are deterministic.
Real CLI; the harness owns the sources of nondeterminism: argument order, the iteration order of
str/Path-keyed sets (through PYTHONHASHSEED values searched until every order is realised),
the ninja schedule (every linear extension of the build graph, driven one edge at a time), and
places (build dir, cwd, source dir)."""
import hashlib
import itertools
import os
import re
import shutil
import subprocess
import sys
from pathlib import Path

from vmc.core import lattice, listing, pool
from vmc.core.listing import ok, bad
from vmc.core.report import HarnessError

FORMATS = ["glyf_colr_1", "picosvgz", "cbdt", "untouchedsvg"]  # picosvgz = picosvg + gzip of every document (its header has a time field)  # untouchedsvg hands the *sources themselves* (paths outside the build dir) to the later steps


def source_texts(n):
    from vmc.core import lattice as L
    from vmc.gen import scenes

    # rich content on purpose: a reused shape whose first occurrence carries fill *and* opacity, palette
    # variables, a sequence (GSUB), nested groups, several gradients -- every str-keyed set in the
    # compiler should have something to iterate over
    glyphs, _ = scenes.mk(L.full(scenes.DIMS, {"nglyphs": 3, "donor_paint": "opacity", "copy_paint": "var", "grp": "nested", "seqlen": 2, "where": "both"}))
    # the third glyph stands for a 13-codepoint sequence: its joined name exceeds the 63 characters a feature file allows,
    # so the compiler derives a short name for it -- in every process of the build anew
    glyphs[2].cps = tuple([0x1F9D1] + [c for i in range(6) for c in (0x200D, 0x1F9D1 + i + 1)])
    out = [(f"emoji_u{'_'.join('%04x' % c for c in g.cps)}.svg", g.svg()) for g in glyphs]
    if n == 4:
        glyphs2, _ = scenes.mk(L.full(scenes.DIMS, {"outline": "quad", "nglyphs": 1}))
        out.append(("emoji_ue009.svg", glyphs2[0].svg()))
    return out[:n]


def fmt_flags(fmt):
    f = [f"--color_format={fmt}", "--output_file=Font.ttf", "--keep_glyph_names"]  # names in the binary: more of the build is observable
    return f


# ----------------------------------------------------------- hash seeds = set orders ------
def seed_for_order(items, order, limit=600):
    """a PYTHONHASHSEED under which list(set(items)) comes out in the given order (indices into items)"""
    code = "import sys;s=set(sys.argv[1:]);print(' '.join(str(sys.argv[1:].index(x)) for x in s))"
    for seed in range(1, limit):
        r = subprocess.run([sys.executable, "-c", code] + list(items), env=dict(os.environ, PYTHONHASHSEED=str(seed)), capture_output=True, text=True)
        if tuple(int(x) for x in r.stdout.split()) == tuple(order):
            return seed
    return None


def seeds_for_all_orders(items, limit=400):
    """PYTHONHASHSEED values realising every iteration order of set(items) (strings)"""
    want = set(itertools.permutations(range(len(items))))
    found = {}
    code = "import sys;s=set(sys.argv[1:]);print(' '.join(str(sys.argv[1:].index(x)) for x in s))"
    for seed in range(1, limit):
        if len(found) == len(want):
            break
        r = subprocess.run([sys.executable, "-c", code] + list(items), env=dict(os.environ, PYTHONHASHSEED=str(seed)), capture_output=True, text=True)
        order = tuple(int(x) for x in r.stdout.split())
        found.setdefault(order, seed)
    return found, len(want)


# ----------------------------------------------------------------------- one build ------
def place(w, case, n):
    """creates sources; returns (cwd, build_dir, [source paths in canonical order])"""
    srcdir = w / ("moved away" if case.get("srcdir") == "moved" else "") / "src"
    from vmc.drive import cli

    texts = source_texts(n)
    if case.get("layout", "two_dirs") == "two_dirs":
        # the same files spread over two sibling directories (the first source alone in the second one)
        files = cli.write_sources(srcdir / "s2", texts[:1]) + cli.write_sources(srcdir / "s1", texts[1:])
        srcdir = srcdir / "s1"
    else:
        files = cli.write_sources(srcdir, texts)
    bd = {"default": w / "build", "nested": w / "a" / "b" / "c" / "d" / "build", "space": w / "dir with space" / "build",
          # inside one of the source directories: the sources' paths relative to the build directory then sort differently
          "in_src": srcdir / "build"}[case.get("build_dir", "default")]
    cwd = {"work": w, "src": srcdir, "src-rel": srcdir, "root": Path("/")}[case.get("cwd", "work")]
    return cwd, bd, files


def exec_configs(case):
    """two configurations sharing their sources, given in both orders: each font must come out the same"""
    from vmc.props import c20

    a, b = case["pair"]
    rc1, err1, out1 = c20._build_configs([a, b])
    rc2, err2, out2 = c20._build_configs([b, a])
    if rc1 != rc2:
        return [bad("C08.same-bytes", f"nanoemoji {a}.toml {b}.toml exits {rc1}, nanoemoji {b}.toml {a}.toml exits {rc2}")]
    if rc1 != 0:
        return [{"status": "rejected", "clause": "C08.configs", "fp": "configs:both-orders-fail"}]  # C20's known findings: shared intermediates
    diff = [n for n in (a, b) if out1.get(n) != out2.get(n)]
    if diff:
        return [bad("C08.same-bytes", f"{diff} differ between `nanoemoji {a}.toml {b}.toml` and `nanoemoji {b}.toml {a}.toml`")]
    return [ok("C08.configs", "configs:same")]


def exec_vf_seeds(case):
    """a variable font with two axes (three masters), built in one directory under several hash seeds: the same bytes every time"""
    import toml
    from vmc.drive import cli
    from vmc.oracles import aff
    from vmc.oracles.scene import Glyph
    from vmc.props import c18

    masters, _ = c18.master_scenes({"scene": "three_glyphs", "variant": "translate", "masters": "two_default_min"})
    masters = list(masters) + [[Glyph(g.cps, g.vb, [c18._move(n, aff.tr(-4, 5)) for n in g.nodes]) for g in masters[0]]]
    locs = [{"wght": 300, "wdth": 100}, {"wght": 700, "wdth": 100}, {"wght": 300, "wdth": 125}]
    w = cli.mkscratch("c08vf")
    try:
        cfg = {"output_file": "VF.ttf", "color_format": "glyf_colr_1", "master": {},
               "axis": {"wght": {"name": "Weight", "default": 300}, "wdth": {"name": "Width", "default": 100}}}
        for i, gl in enumerate(masters):
            files = cli.write_sources(w / f"m{i}", [(f"emoji_u{'_'.join('%04x' % c for c in g.cps)}.svg", g.svg()) for g in gl])
            cfg["master"][f"m{i}"] = {"style_name": f"M{i}", "position": locs[i], "srcs": [str(f) for f in files]}
        (w / "vf.toml").write_text(toml.dumps(cfg))
        shas = {}
        for seed in case["seeds"]:
            shutil.rmtree(w / "build", ignore_errors=True)
            r = cli.nanoemoji(w, [w / "vf.toml"], hashseed=str(seed), timeout=900)
            out = w / "build" / "VF.ttf"
            if r.returncode != 0 or not out.exists():
                return [bad("C08.builds", f"two-axis variable font under PYTHONHASHSEED={seed}: exit {r.returncode}: {(r.stderr or '')[-300:]}")]
            shas[seed] = hashlib.sha256(out.read_bytes()).hexdigest()[:16]
        if len(set(shas.values())) != 1:
            return [bad("C08.same-bytes", f"two-axis variable font: bytes depend on PYTHONHASHSEED: {shas}")]
        return [ok("C08.configs", "vf-two-axes:same")]
    finally:
        shutil.rmtree(w, ignore_errors=True)


def one_build(case):
    from vmc.drive import cli

    fmt = case["fmt"]
    n = case.get("n", 3)
    spec = case.get("seed", 0)
    paths_order = spec.get("paths_order") if isinstance(spec, dict) else None
    if paths_order is not None:
        # the iteration order of the set of *source paths* depends on the very path strings: a work
        # directory with a fixed name, and a seed searched for exactly those strings
        w = cli.scratch_root() / ("c08-%s-paths-%s" % (fmt, "".join(map(str, paths_order))))
        shutil.rmtree(w, ignore_errors=True)
        w.mkdir(parents=True)
    else:
        w = cli.mkscratch("c08")
    try:
        cwd, bd, files = place(w, case, n)
        if paths_order is not None:
            found = seed_for_order([str(f) for f in files[:len(paths_order)]], paths_order)
            if found is None:
                return [{"status": "skipped", "clause": "C08.set-order-not-realised", "fp": "paths-order-not-realised"}]
            case = dict(case, seed=found)
        perm = case.get("perm") or list(range(n))
        args = [str(files[i]) for i in perm]
        if case.get("relative") or case.get("cwd") == "src-rel":
            args = [os.path.relpath(a, cwd) for a in args]
        flags = fmt_flags(fmt)
        if case.get("build_dir", "default") != "default" or case.get("cwd", "work") != "work":
            flags.append(f"--build_dir={bd}")
        seed = str(case.get("seed", 0))
        if case.get("glob"):
            import toml

            t = w / "c.toml"
            t.write_text(toml.dumps({"color_format": fmt, "output_file": "Font.ttf", "keep_glyph_names": True, "axis": {"wght": {"name": "Weight", "default": 400}},
                                     "master": {"regular": {"style_name": "Regular", "position": {"wght": 400}, "srcs": sorted({str(f.parent / "*.svg") for f in files})}}}))
            flags, args = ([f"--build_dir={bd}"] if f"--build_dir={bd}" in flags else []), [str(t)]
        jobs = case.get("jobs")
        if jobs:
            r = cli.nanoemoji(cwd, flags + ["--noexec_ninja"] + args, hashseed=seed)
            if r.returncode == 0:
                r = cli.run(["ninja", "-C", str(bd), f"-j{jobs}"], cwd, hashseed=seed)
        else:
            r = cli.nanoemoji(cwd, flags + args, hashseed=seed)
        out = bd / "Font.ttf"
        if r.returncode != 0 or not out.exists():
            return [bad("C08.build", f"exit {r.returncode}: {(r.stderr or r.stdout or '')[-300:]}")]
        return [dict(ok("C08.built", None), sha=hashlib.sha256(out.read_bytes()).hexdigest())]
    finally:
        shutil.rmtree(w, ignore_errors=True)


# ------------------------------------------------------------------- schedules (E4) ------
def read_graph(bd, env):
    targets = [l.split(":")[0] for l in subprocess.run(["ninja", "-C", str(bd), "-t", "targets", "all"], env=env, capture_output=True, text=True).stdout.splitlines()]
    pre = {}
    for t in targets:
        q = subprocess.run(["ninja", "-C", str(bd), "-t", "query", t], env=env, capture_output=True, text=True).stdout
        ins = []
        mode = None
        for line in q.splitlines():
            s = line.strip()
            if s.startswith("input:"):
                mode = "in"
                continue
            if s.startswith("outputs:"):
                mode = "out"
                continue
            if mode == "in":
                ins.append(s.lstrip("|").strip())
        pre[t] = {i for i in ins if i in targets}
    return targets, pre


def linear_extensions(targets, pre):
    def rec(done, order):
        if len(order) == len(targets):
            yield list(order)
            return
        for t in targets:
            if t not in done and pre[t] <= done:
                done.add(t)
                order.append(t)
                yield from rec(done, order)
                order.pop()
                done.discard(t)

    return rec(set(), [])


def sleep_set_extensions(targets, pre, independent):
    """one representative per Mazurkiewicz trace: classic sleep sets over the enabled edges"""
    out = []

    def rec(done, order, sleep):
        enabled = [t for t in targets if t not in done and pre[t] <= done]
        if not enabled:
            if len(order) == len(targets):
                out.append(list(order))
            return
        explored = []
        for t in enabled:
            if t in sleep:
                continue
            new_sleep = {s for s in (sleep | set(explored)) if independent(s, t)}
            done.add(t)
            order.append(t)
            rec(done, order, new_sleep)
            order.pop()
            done.discard(t)
            explored.append(t)

    rec(set(), [], set())
    return out


def graph_for(fmt, n):
    from vmc.drive import cli

    w = cli.mkscratch("c08g")
    try:
        cwd, bd, files = place(w, {}, n)
        extra = ["--nouse_pngquant"] if fmt == "cbdt" else []
        r = cli.nanoemoji(cwd, fmt_flags(fmt) + extra + ["--noexec_ninja"] + [str(f) for f in files])
        if r.returncode != 0:
            raise HarnessError("cannot generate build.ninja: " + r.stderr[-300:])
        return read_graph(bd, cli.env())
    finally:
        shutil.rmtree(w, ignore_errors=True)


def footprints(fmt, n):
    """strace -f of every step (run in one topological order): files read / written, filtered to
    the work directory. Two steps are independent iff neither writes what the other reads or writes."""
    from vmc.drive import cli

    w = cli.mkscratch("c08f")
    try:
        cwd, bd, files = place(w, {}, n)
        extra = ["--nouse_pngquant"] if fmt == "cbdt" else []
        cli.nanoemoji(cwd, fmt_flags(fmt) + extra + ["--noexec_ninja"] + [str(f) for f in files])
        targets, pre = read_graph(bd, cli.env())
        order = next(linear_extensions(targets, pre))
        fp = {}
        for t in order:
            log = w / "strace.log"
            r = cli.run(["strace", "-f", "-e", "trace=openat,open,creat,rename,unlink,unlinkat", "-o", str(log), "ninja", "-C", str(bd), "-j1", t], cwd)
            if r.returncode != 0:
                raise HarnessError(f"step {t} fails under strace: {r.stdout[-200:]}")
            reads, writes = set(), set()
            for line in log.read_text(errors="replace").splitlines():
                m = re.search(r'"([^"]+)"(.*)$', line)
                if not m or "ENOENT" in line:
                    continue
                p = m.group(1)
                if not p.startswith("/"):
                    p = os.path.normpath(os.path.join(str(bd), p))
                if not p.startswith(str(w)) or "/.ninja" in p or os.path.isdir(p):
                    continue
                rel = os.path.relpath(p, str(w))
                if re.search(r"O_WRONLY|O_RDWR|O_CREAT|creat\(|rename|unlink", line):
                    writes.add(rel)
                else:
                    reads.add(rel)
            fp[t] = (reads - writes, writes)
        return targets, pre, fp
    finally:
        shutil.rmtree(w, ignore_errors=True)


def run_schedule(case):
    from vmc.drive import cli

    fmt, n, order = case["fmt"], case["n"], case["order"]
    w = cli.mkscratch("c08s")
    try:
        cwd, bd, files = place(w, {}, n)
        extra = ["--nouse_pngquant"] if fmt == "cbdt" else []
        r = cli.nanoemoji(cwd, fmt_flags(fmt) + extra + ["--noexec_ninja"] + [str(f) for f in files])
        if r.returncode != 0:
            return [bad("C08.build", "cannot generate build.ninja")]
        for t in order:
            p = cli.run(["ninja", "-C", str(bd), "-j1", t], cwd)
            if p.returncode:
                return [bad("C08.schedule-builds", f"step {t} fails in schedule {order}: {p.stdout[-300:]}")]
            ran = len(re.findall(r"^\[\d+/\d+\]", p.stdout, re.M))
            if ran != 1:
                return [{"status": "harness-error", "clause": "harness.schedule", "detail": f"ninja ran {ran} edges for target {t} (the scheduler does not own the schedule)"}]
        out = bd / "Font.ttf"
        return [dict(ok("C08.built", None), sha=hashlib.sha256(out.read_bytes()).hexdigest())]
    finally:
        shutil.rmtree(w, ignore_errors=True)


def execute(case):
    if case.get("kind") == "configs":
        return exec_configs(case)
    if case.get("kind") == "vf_seeds":
        return exec_vf_seeds(case)
    if case.get("kind") == "schedule":
        return run_schedule(case)
    return one_build(case)


def replay(case):
    """a single execution cannot show a difference: build the recorded case and the default
    case (resp. the first linear extension) of the same format and compare the bytes"""
    if case.get("kind") == "configs":
        return exec_configs(case)
    if case.get("kind") == "race":
        return [bad("C08.footprint-race", f"recorded race: {case}")]
    a = execute(case)
    if case.get("kind") == "schedule":
        targets, pre = graph_for(case["fmt"], case["n"])
        b = execute(dict(case, order=next(linear_extensions(targets, pre))))
    else:
        b = execute({"fmt": case["fmt"], "n": case.get("n", 3), "layout": case.get("layout", "two_dirs")})
    if not (a and b and "sha" in a[0] and "sha" in b[0]):
        return a + b
    if a[0]["sha"] != b[0]["sha"]:
        return [bad("C08.same-bytes", f"{case} gives {a[0]['sha'][:12]}, the reference execution {b[0]['sha'][:12]}")]
    return [ok("C08.same-bytes", None)]


# ------------------------------------------------------------------------------- run ------
def run(report, tier, only=None):
    n = 3 if tier == "quick" else 4
    perms = [list(p) for p in itertools.permutations(range(n))]
    # hash seeds realising every iteration order of the set of source paths / of glyph names
    from vmc.drive import cli

    names = [nm for nm, _ in source_texts(3)]
    from nanoemoji.glyph import glyph_name
    from nanoemoji import codepoints as cps

    name_items = [glyph_name(cps.from_filename(Path(nm).stem)) for nm in names]
    seeds = {}
    cover = {}
    # the two-element attribute-name set nanoemoji's OT-SVG writer iterates over (svg._PAINT_ATTRIB_APPLY_PAINT_MAY_SET)
    for label, items in (("names", name_items), ("file-names", names), ("paint-attributes", ["fill", "opacity"])):
        found, total = seeds_for_all_orders(items)
        cover[label] = f"{len(found)}/{total}"
        if len(found) < total:
            report.cap_hit(f"only {len(found)} of {total} iteration orders of the {label} set were realised")
        for o, s in found.items():
            seeds[s] = True
    seed_values = sorted(seeds)
    report.extra["set_orders_realised"] = cover
    report.extra["hash_seeds_used"] = seed_values
    dims = {
        "perm": perms,
        # hash seeds: one per iteration order of each path-independent str set, plus one *searched per build*
        # for every iteration order of the set of the first three source paths (see one_build)
        "seed": [0] + seed_values + [{"paths_order": list(o)} for o in itertools.permutations(range(3))],
        "jobs": [None, 1, 2, 16],
        "build_dir": ["default", "nested", "space", "in_src"],
        "cwd": ["work", "src", "src-rel", "root"],  # src-rel: run inside the source directory with relative arguments
        "srcdir": ["here", "moved"],
        "relative": [False, True],
        "glob": [False, True],
    }
    k = 1 if tier == "quick" else 2
    devs, skipped = lattice.states(dims, k, relevant=lambda d: not (d.get("glob") and ("perm" in d or "relative" in d)) and not (d.get("relative") and d.get("cwd") == "root" and False))
    shas = {}
    if only in (None, "lattice"):
        cases = []
        # the sources live in two sibling directories (quick) / also in one directory (thorough); fonts are only
        # compared within one layout: which directory a file is in is part of its name as far as the order of
        # sources goes, and the statement does not speak of it
        for layout in (["two_dirs"] if tier == "quick" else ["two_dirs", "one_dir"]):
            for fmt in FORMATS:
                for d in devs:
                    if len(d) > 1 and fmt in ("cbdt", "untouchedsvg"):  # (picosvgz and glyf_colr_1 get all)
                        continue  # two deviations at once for the vector and picosvg formats only (time)
                    cases.append(dict(d, fmt=fmt, n=n, layout=layout))
        res = listing.run(report, cases, execute, timeout=900, jobs=6)
        realised = wanted = 0
        for c, vs in zip(cases, res):
            if isinstance(c.get("seed"), dict):
                wanted += 1
                realised += 1 if (vs and "sha" in vs[0]) else 0
            if vs and "sha" in vs[0]:
                shas.setdefault(c["fmt"] + "/" + c["layout"], {}).setdefault(vs[0]["sha"], []).append(c)
        report.extra["set_orders_realised"]["source-paths"] = f"{realised}/{wanted} builds (3! orders x formats), each under a seed searched for its own path strings"
        if realised < wanted:
            report.cap_hit(f"{wanted - realised} iteration orders of the source-path set were not realised within the seed search limit")
    # the order of *configuration files* on the command line (several fonts built in one invocation)
    if only in (None, "configs"):
        from vmc.props import c20

        pairs = [("base", "noclip"), ("base", "picosvg"), ("noclip", "metrics")] if tier == "quick" else list(itertools.combinations(["base", "noclip", "picosvg", "metrics", "noreuse"], 2))
        ccases = [{"kind": "configs", "pair": list(p_)} for p_ in pairs]
        # a multi-master configuration with two axes under hash seeds that order two short strings both ways
        ccases.append({"kind": "vf_seeds", "seeds": [0, 1, 3, 4] if tier == "quick" else list(range(8))})
        listing.run(report, ccases, execute, timeout=900, jobs=4)
    # schedules
    if only in (None, "sched"):
        sched_n = 2 if tier == "quick" else 3
        for fmt in (["glyf_colr_1"] if tier == "quick" else ["glyf_colr_1", "picosvg"]):
            targets, pre = graph_for(fmt, sched_n)
            exts = list(linear_extensions(targets, pre))
            report.extra[f"linear_extensions_{fmt}_n{sched_n}"] = len(exts)
            cases = [{"kind": "schedule", "fmt": fmt, "n": sched_n, "order": o} for o in exts]
            res = listing.run(report, cases, execute, timeout=900, transitions_per_case=len(targets), jobs=12)
            sh = {}
            for c, vs in zip(cases, res):
                if vs and "sha" in vs[0]:
                    sh.setdefault(vs[0]["sha"], []).append(c)
            if len(sh) > 1:
                groups = sorted(sh.values(), key=len)
                report.add_violation("C08.schedule-independent", groups[0][0], f"{fmt}: {len(sh)} different fonts over {len(exts)} schedules; e.g. {groups[0][0]['order']} vs {groups[-1][0]['order']}")
            report.fps[f"schedules:{fmt}:{len(sh)}-distinct-fonts"] += 1
        # partial-order reduction for the bitmap chain (too many extensions to run all): footprints + sleep sets
        fmt = "cbdt"
        targets, pre, fp = footprints(fmt, 2)
        closure = {t: set() for t in targets}
        for t in targets:  # ancestors
            stack = list(pre[t])
            while stack:
                x = stack.pop()
                if x not in closure[t]:
                    closure[t].add(x)
                    stack += list(pre[x])

        def independent(a, b):
            ra, wa = fp[a]
            rb, wb = fp[b]
            return not (wa & (rb | wb)) and not (wb & (ra | wa))

        races = [(a, b) for a, b in itertools.combinations(targets, 2) if a not in closure[b] and b not in closure[a] and not independent(a, b)]
        report.extra["footprint_races_unordered_dependent_steps"] = [list(r) for r in races]
        reps = sleep_set_extensions(targets, pre, independent)
        total = sum(1 for _ in linear_extensions(targets, pre)) if len(targets) <= 12 else None
        report.extra["cbdt_schedule_traces"] = {"targets": len(targets), "mazurkiewicz_representatives": len(reps), "linear_extensions": total}
        report.extra["cbdt_step_footprints"] = {t: {"reads": sorted(r), "writes": sorted(w_)} for t, (r, w_) in fp.items()}
        cap = 60 if tier == "quick" else 400
        if total is not None and total <= cap:
            # small enough to run every linear extension: this also validates the reduction
            # (every extension must give the representative's bytes)
            reps = reps + [o for o in linear_extensions(targets, pre) if o not in reps]
        elif len(reps) > cap:
            report.cap_hit(f"cbdt schedules: {len(reps)} trace representatives, ran the first {cap}")
            reps = reps[:cap]
        cases = [{"kind": "schedule", "fmt": fmt, "n": 2, "order": o} for o in reps]
        res = listing.run(report, cases, execute, timeout=900, transitions_per_case=len(targets), jobs=12)
        sh = {}
        for c, vs in zip(cases, res):
            if vs and "sha" in vs[0]:
                sh.setdefault(vs[0]["sha"], []).append(c)
        if len(sh) > 1:
            groups = sorted(sh.values(), key=len)
            report.add_violation("C08.schedule-independent", groups[0][0], f"cbdt: {len(sh)} different fonts over {len(reps)} schedule representatives")
        if races:
            report.add_violation("C08.footprint-race", {"kind": "race", "pairs": [list(r) for r in races]}, f"steps unordered by the graph but dependent by file footprint: {races[:3]}")
    for fmt, groups in shas.items():
        report.fps[f"{fmt}:{len(groups)}-distinct-fonts"] += 1
        if len(groups) > 1:
            gs = sorted(groups.values(), key=len)
            odd = gs[0][0]
            report.add_violation("C08.same-bytes", odd, f"{fmt}: {len(groups)} different fonts over {sum(len(g) for g in gs)} builds; odd one out: {odd}; majority e.g. {gs[-1][0]}")
    report.extra["deviation_bound"] = k
    report.rule = (
        "E1 over {argument permutation (all %d!), hash seed (one per iteration order of the 3-element path / glyph-name / file-name sets, all orders "
        "realised), ninja -j1/-j2/-j16, build dir (default/nested/with space), cwd (work/src//), source dir moved, relative arguments, glob in TOML} + both orders of two configuration files built in one invocation + a two-axis variable font under 4 (thorough: 8) hash seeds "
        "with <= %d deviations x {glyf_colr_1, picosvg, cbdt}; E4: every linear extension of the ninja graph driven one edge at a time (quick: 2 sources; "
        "thorough: 3 sources), plus sleep-set representatives for the bitmap chain with strace footprints; oracle: one sha256 per format; "
        "distinct = number of distinct fonts per family (must be 1)" % (n, k)
    )
    report.assumptions += ["Color, int and tuple-of-int hashes do not depend on PYTHONHASHSEED; only str/Path-keyed sets do",
                           "sources from several directories in different relative order are outside the statement (it speaks of file names)"]
