"""C04 - Every source is reachable from its codepoints, and only from them."""
import io
import itertools
import re

from vmc.core import listing
from vmc.core.listing import ok, bad
from vmc.oracles import paths, shaper

# one codepoint per shortcut visible in glyph.py / codepoints.py
SIGMA = [0x67, 0x61, 0x41, 0x23, 0xA9, 0xE9, 0x1F600, 0x1F601, 0x200D, 0xFE0F, 0x1F3FB, 0xE0067, 0x10FFFF]
LONG = (0x1F468, 0x200D, 0x2764, 0xFE0F, 0x200D, 0x1F48B, 0x200D, 0x1F468, 0x1F3FB, 0x200D, 0x1F3FC, 0x1F3FD, 0x1F3FE, 0x1F3FF)
UNIVERSE = [
    (0x1F600,), (0x1F601,), (0x1F600, 0x1F3FB), (0x1F600, 0x1F3FB, 0x200D, 0x1F601), (0x1F600, 0x200D, 0x1F601),
    (0x1F601, 0x200D, 0x1F600), (0x1F3FB,), (0x23, 0xFE0F, 0x20E3), (0x23,), (0xA9,), (0xA9, 0xFE0F), (0x61,), (0x41,),
    (0x61, 0x62), (0x67,), (0x67, 0x1F600), (0xE9,), (0xE0067, 0xE0062), (0x10FFFF,), LONG,
]
COLORS = ["#FF0000", "#00FF00", "#0000FF", "#FFFF00", "#FF00FF", "#00FFFF", "#800000", "#008000", "#000080", "#808000",
          "#800080", "#008080", "#FF8000", "#8000FF", "#0080FF", "#FF0080", "#80FF00", "#00FF80", "#404040", "#C0C0C0"]
QUICK_FORMATS = ["glyf_colr_1", "glyf_colr_0", "picosvg", "glyf", "cbdt"]
FEA_NAME = re.compile(r"^[A-Za-z_][A-Za-z0-9_.]{0,62}$")


def stem(seq, style):
    if style == "emoji_u":
        return "emoji_u" + "_".join("%04x" % c for c in seq)
    if style == "pad8":  # U+0001F600 style: zero-padded to eight hex digits
        return "emoji_u" + "_".join("%08x" % c for c in seq)
    if style == "upper":
        return "emoji_u" + "_".join("%04X" % c for c in seq)
    if style == "bare_u":
        return "u" + "_".join("%x" % c for c in seq)
    return "-".join("%04x" % c for c in seq)


def g_prefix_collision(a, b):
    """predicted from the scene data: 'g' followed by a sequence whose name gets the g_ prefix"""
    for x, y in ((a, b), (b, a)):
        if len(x) == len(y) + 1 and x[0] == 0x67 and x[1:] == y:
            ch = chr(y[0])
            if not (ch.isalpha() and ch.isascii()):
                return True
    return False


# ---------------------------------------------------------------- (a) pure level -------
def pure_level(report, tier, prefix="C04"):
    from nanoemoji import codepoints
    from nanoemoji.glyph import glyph_name

    seqs = []
    for n in range(1, 5):
        seqs += list(itertools.product(SIGMA, repeat=n))
    # chains that cross the 63-character name limit
    for n in range(5, 15):
        for start in range(len(SIGMA)):
            seqs.append(tuple(SIGMA[(start + i * 3) % len(SIGMA)] for i in range(n)))
            seqs.append(tuple(LONG[:n]))
    seqs = list(dict.fromkeys(seqs))
    names = {}
    for s in seqs:
        name = glyph_name(s)
        report.states += 1
        report.transitions += 1
        report.evaluations += 1
        fp = "hashed" if len("_".join("%x" % c for c in s)) > 63 else ("g_" if name.startswith("g_") else "alpha")
        report.fps["name:" + fp] += 1
        if not FEA_NAME.match(name):
            report.add_violation(prefix + ".name-legal", {"kind": "name", "seq": list(s)}, f"glyph name {name!r} is not legal in a feature file")
        if name in names and names[name] != s:
            other = names[name]
            sig = "g-prefix-collision" if g_prefix_collision(s, other) else None
            report.add_violation(prefix + ".name-injective", {"kind": "name-pair", "a": list(other), "b": list(s)},
                                 f"{[hex(c) for c in other]} and {[hex(c) for c in s]} both get glyph name {name!r}", sig)
        names.setdefault(name, s)
        for style in ("emoji_u", "dash", "pad8", "upper", "bare_u"):
            got = codepoints.from_filename(stem(s, style))
            if tuple(got) != s:
                report.add_violation(prefix + ".filename-roundtrip", {"kind": "filename", "seq": list(s), "style": style},
                                     f"{stem(s, style)} parses to {[hex(c) for c in got]}")
    report.status["ok"] += len(seqs)
    report.executions += len(seqs)
    report.sample({"kind": "name", "seq": list(seqs[len(seqs) // 2])})
    report.extra["pure_sequences"] = len(seqs)


# ---------------------------------------------------------------- (b) font level -------
def art(i, vb=100):
    x = 4 + 4.5 * i
    if i % 3 == 1:  # an unrelated shape: the bars are congruent and share one outline, these do not join that group
        return (f'<svg xmlns="http://www.w3.org/2000/svg" viewBox="0 0 {vb} {vb}"><defs/>'
                f'<path d="M{x},10 L{x + 3.5},{40 + i} L{x + 1},90 L{x},{60 - i} Z" fill="{COLORS[i]}"/></svg>')
    return (f'<svg xmlns="http://www.w3.org/2000/svg" viewBox="0 0 {vb} {vb}"><defs/>'
            f'<path d="M{x},10 L{x + 3.5},10 L{x + 3.5},90 L{x},90 Z" fill="{COLORS[i]}"/></svg>')


def _rgb(h):
    return tuple(int(h[i:i + 2], 16) for i in (1, 3, 5))


def glyph_is_blank(font, name):
    return not list(paths.glyph_path(font.getGlyphSet(), name).segments)


def colour_glyphs(font):
    out = set()
    if "COLR" in font:
        c = font["COLR"]
        if c.version == 0:
            out |= set(c.ColorLayers)
        else:
            out |= {r.BaseGlyph for r in c.table.BaseGlyphList.BaseGlyphPaintRecord}
    if "SVG " in font:
        from vmc.props import common

        order = font.getGlyphOrder()
        for text, s, e in common.svg_docs(font):
            for gid in range(s, e + 1):
                if f'id="glyph{gid}"' in text:
                    out.add(order[gid])
    if "CBDT" in font:
        for strike in font["CBDT"].strikeData:
            out |= set(strike)
    if "sbix" in font:
        for strike in font["sbix"].strikes.values():
            out |= {n for n, g in strike.glyphs.items() if g.imageData}
    return out


def artwork_of(font, name, fmt, cfg):
    """-> (index of the source whose artwork glyph `name` carries, how) or (None, why)"""
    from vmc.props import common

    em = cfg.ascender - cfg.descender
    s = em / 100.0
    dx = (font["hmtx"][name][0] - em) / 2

    def index_from_x(xmin):
        i = (((xmin - dx) / s) - 4) / 4.5
        return round(i) if abs(i - round(i)) < 0.15 else None

    def index_from_rgb(rgb):
        best = min(range(len(COLORS)), key=lambda i: sum(abs(a - b) for a, b in zip(_rgb(COLORS[i]), rgb)))
        return best if sum(abs(a - b) for a, b in zip(_rgb(COLORS[best]), rgb)) <= 12 else None

    found = []
    if "COLR" in font:
        from vmc.oracles import flatten

        leaves = flatten.colr_leaves(font, name, common.FG)
        if len(leaves) != 1:
            return None, f"{len(leaves)} COLR layers"
        c = leaves[0].fill_at(leaves[0].interior(3)[0] if leaves[0].interior(3) else (0, 0))
        found.append(index_from_rgb(tuple(round(v * 255) for v in c[:3])))
        found.append(index_from_x(paths.bounds(leaves[0].poly())[0]))
    if "SVG " in font:
        from vmc.oracles.svg_eval import SvgPicture
        from vmc.oracles import flatten

        gid = font.getGlyphID(name)
        docs = [d for d in common.svg_docs(font) if d[1] <= gid <= d[2]]
        if len(docs) != 1:
            return None, f"{len(docs)} SVG documents cover gid {gid}"
        pic = SvgPicture(docs[0][0], fg=common.FG)
        if f"glyph{gid}" not in pic.ids:
            return None, f"no element glyph{gid}"
        leaves = flatten.svg_leaves(pic, f"glyph{gid}")
        if len(leaves) != 1:
            return None, f"{len(leaves)} SVG leaves"
        pts = leaves[0].interior(3)
        c = leaves[0].fill_at(pts[0] if pts else (0, 0))
        found.append(index_from_rgb(tuple(round(v * 255) for v in c[:3])))
        found.append(index_from_x(paths.bounds(leaves[0].poly())[0]))
    if fmt == "glyf":
        p = paths.polyline(paths.glyph_path(font.getGlyphSet(), name))
        if not p:
            return None, "no outline"
        found.append(index_from_x(paths.bounds(p)[0]))
    png = None
    if "CBDT" in font:
        for strike in font["CBDT"].strikeData:
            if name in strike:
                png = strike[name].imageData
        if png is None:
            return None, "no CBDT bitmap"
    if "sbix" in font:
        for strike in font["sbix"].strikes.values():
            if name in strike.glyphs and strike.glyphs[name].imageData:
                png = strike.glyphs[name].imageData
        if png is None:
            return None, "no sbix bitmap"
    if png is not None:
        from PIL import Image

        im = Image.open(io.BytesIO(png)).convert("RGBA")
        px = [p for p in im.getdata() if p[3] > 250]
        if not px:
            return None, "bitmap has no opaque pixel"
        from collections import Counter

        found.append(index_from_rgb(Counter(p[:3] for p in px).most_common(1)[0][0]))
    if not found or any(f is None for f in found) or len(set(found)) != 1:
        return None, f"artwork not identifiable: {found}"
    return found[0], "ok"


def execute(case):
    if case["kind"] == "set":
        return exec_set(case)
    if case["kind"] == "advance":
        return exec_advance(case)
    return exec_pure(case)


def build_set(case):
    """-> (seqs, idx, predicted_collision, (cfg, font, data) or exception)"""
    from vmc.drive import pipe, cli

    idx = case["members"]
    seqs = [UNIVERSE[i] for i in idx]
    fmt = case["fmt"]
    style = case.get("style", "emoji_u")
    over = {"color_format": fmt, "keep_glyph_names": case["keep"], "output_file": "Font.otf" if fmt.startswith("cff") else "Font.ttf"}
    if fmt in ("cbdt", "sbix"):
        over.update(use_pngquant=False, use_zopflipng=False)
    srcs = [(stem(s, style) + ".svg", art(i)) for i, s in zip(idx, seqs)]
    # 'g' followed by a sequence whose name gets the g_ prefix: collides with that sequence's
    # glyph -- a source, or the blank glyph of a sequence-only codepoint
    predicted_collision = any(len(s) > 1 and g_prefix_collision(s, s[1:]) for s in seqs)
    w = cli.mkscratch("c04")
    try:
        return seqs, idx, predicted_collision, pipe.build(w, srcs, over)
    except Exception as e:
        return seqs, idx, predicted_collision, e


def exec_pure(case, prefix="C04"):
    from vmc.drive import inproc

    inproc.init()
    from nanoemoji import codepoints
    from nanoemoji.glyph import glyph_name

    if case["kind"] == "name":
        n = glyph_name(tuple(case["seq"]))
        return [ok(prefix + ".name-legal")] if FEA_NAME.match(n) else [bad(prefix + ".name-legal", f"{n!r} is not legal in a feature file")]
    if case["kind"] == "name-pair":
        a, b = tuple(case["a"]), tuple(case["b"])
        if glyph_name(a) == glyph_name(b):
            return [bad(prefix + ".name-injective", f"{[hex(c) for c in a]} and {[hex(c) for c in b]} both get {glyph_name(a)!r}")]
        return [ok(prefix + ".name-injective")]
    if case["kind"] == "filename":
        s_ = tuple(case["seq"])
        got = tuple(codepoints.from_filename(stem(s_, case["style"])))
        return [ok(prefix + ".filename-roundtrip")] if got == s_ else [bad(prefix + ".filename-roundtrip", f"{stem(s_, case['style'])} parses to {[hex(c) for c in got]}")]
    return [bad(prefix + ".replay", f"unknown case kind {case.get('kind')}")]


def exec_set(case):
    fmt = case["fmt"]
    seqs, idx, predicted_collision, res = build_set(case)
    if isinstance(res, Exception):
        e = res
        if predicted_collision:
            return [bad("C04.distinct-sources-distinct-glyphs", f"build rejects the set: {type(e).__name__}: {e}", sig="g-prefix-collision")]
        return [bad("C04.build", f"{type(e).__name__}: {e}")]
    cfg, font, data = res
    out = []
    order = font.getGlyphOrder()
    if order[0] != ".notdef" or glyph_is_blank(font, ".notdef"):
        out.append(bad("C04.notdef", f"glyph 0 is {order[0]} (blank={glyph_is_blank(font, order[0])})"))
    cmap = font.getBestCmap()
    coloured = colour_glyphs(font)
    if 0x20 not in cmap or not glyph_is_blank(font, cmap[0x20]) or cmap[0x20] in coloured:
        out.append(bad("C04.space", f"U+0020 -> {cmap.get(0x20)}"))
    reached = {}
    for i, s in zip(idx, seqs):
        try:
            names = shaper.shape(font, s)
        except shaper.UnsupportedLookup as e:
            out.append(bad("C04.gsub-shape", str(e)))
            continue
        sig = "g-prefix-collision" if predicted_collision else None
        if len(names) != 1:
            out.append(bad("C04.reaches-one-glyph", f"{[hex(c) for c in s]} shapes to {names}", sig=sig))
            continue
        got, why = artwork_of(font, names[0], fmt, cfg)
        if got != i:
            out.append(bad("C04.carries-artwork", f"{[hex(c) for c in s]} reaches {names[0]} carrying source {got} ({why}), expected source {i}", sig=sig))
        if names[0] in reached:
            out.append(bad("C04.distinct-sources-distinct-glyphs", f"{[hex(c) for c in s]} and {[hex(c) for c in reached[names[0]]]} both reach {names[0]}", sig=sig))
        reached[names[0]] = s
    singles = {s[0] for s in seqs if len(s) == 1}
    for cp in sorted({c for s in seqs if len(s) > 1 for c in s} - singles):
        if cp not in cmap:
            out.append(bad("C04.sequence-only-codepoint", f"U+{cp:04X} occurs in a sequence but is not in cmap"))
        elif not glyph_is_blank(font, cmap[cp]) or cmap[cp] in coloured:
            out.append(bad("C04.sequence-only-codepoint", f"U+{cp:04X} -> {cmap[cp]} is not blank", sig="g-prefix-collision" if predicted_collision else None))
    if not out:
        nlig = sum(1 for s in seqs if len(s) > 1)
        out.append(ok("C04.set", f"{fmt}:lig{nlig}:keep{int(case['keep'])}"))
    return out


ASPECTS = [[1, 4], [1, 2], [85, 128], [7, 9], [1, 1], [2, 1], [4, 1]]
WIDTHS = [1275, 0, 1000, 3000]
METRICS = [[1024, 950, -250], [1000, 800, -200], [2048, 1900, -500], [100, 100, 0], [1000, 1000, 0], [16384, 15000, -1000]]


def exec_advance(case):
    from vmc.drive import inproc

    w, h = case["aspect"]
    upem, asc, desc = case["metrics"]
    vbw, vbh = (100 * w / h, 100) if w >= h else (100, 100 * h / w)
    svg = (f'<svg xmlns="http://www.w3.org/2000/svg" viewBox="0 0 {vbw:g} {vbh:g}"><defs/><path d="M10,10 L60,10 L60,60 L10,60 Z" fill="red"/></svg>')
    over = {"upem": upem, "ascender": asc, "descender": desc, "width": case["width"], "color_format": case["fmt"], "output_file": "x.ttf"}
    if case["fmt"] in ("cbdt", "sbix"):
        # bitmap formats take the aspect from the PNG's pixel size
        from nanoemoji.png import PNG
        from vmc.gen import pngs

        hp = 32 if w >= h else 32 * h // w
        wp = 32 * w // h if w >= h else 32
        vbw, vbh = wp, hp
        over["bitmap_resolution"] = hp
        try:
            cfg, font, data = inproc.build_direct([((0xE000,), None)], over, bitmaps=[PNG(pngs.png(wp, hp, 0))])
        except Exception as e:
            # 8-bit CBDT metrics / int16 font metrics cannot hold every combination: an error, not a wrong advance
            return [{"status": "rejected", "clause": "C04.advance", "fp": f"rejected:{case['fmt']}:{type(e).__name__}"}]
    else:
        cfg, font, data = inproc.build_direct([((0xE000,), svg)], over)
    name = font.getBestCmap()[0xE000]
    em = asc - desc
    exact = em * vbw / vbh
    exp = {max(case["width"], round(exact))}
    if abs(exact - int(exact) - 0.5) < 1e-9:  # a tie: round-half-even and round-half-up are both "round"
        exp = {max(case["width"], int(exact)), max(case["width"], int(exact) + 1)}
    got = font["hmtx"][name][0]
    if got not in exp:
        return [bad("C04.advance", f"advance {got}, expected max({case['width']}, round({exact:.3f})) = {sorted(exp)}")]
    return [ok("C04.advance", "width" if got == case["width"] else "proportional")]


def run(report, tier, only=None):
    from vmc.drive import conformance

    if only in (None, "pure"):
        pure_level(report, tier)
    if only in (None, "conf"):
        conformance.run(report, tier)
    if only in (None, "sets"):
        n = len(UNIVERSE)
        fmts = conformance.ALL_FORMATS if tier == "thorough" else QUICK_FORMATS
        cases = []
        for a, b in itertools.combinations(range(n), 2):
            for fmt in fmts:
                for keep in (False, True):
                    for style in ("emoji_u", "dash"):
                        cases.append({"kind": "set", "members": [a, b], "fmt": fmt, "keep": keep, "style": style})
        triples = list(itertools.combinations(range(n), 3))
        tf = ["glyf_colr_1", "picosvg", "cbdt"] if tier == "thorough" else ["glyf_colr_1", "picosvg"]
        if tier != "thorough":
            # quick: the triples that contain a prefix pair, the collision pair or the long name
            special = {2, 3, 4, 6, 14, 15, 19}
            triples = [t for t in triples if len(special & set(t)) >= 2]
        for t in triples:
            for fmt in tf:
                cases.append({"kind": "set", "members": list(t), "fmt": fmt, "keep": False, "style": "dash" if sum(t) % 2 else "emoji_u"})
        listing.run(report, cases, execute, timeout=300, transitions_per_case=1)
        report.extra["font_level_sets"] = len(cases)
    if only in (None, "advance"):
        cases = [{"kind": "advance", "aspect": a, "width": w, "metrics": m, "fmt": f}
                 for a in ASPECTS for w in WIDTHS for m in METRICS for f in ("glyf_colr_1", "picosvg", "glyf", "cbdt", "sbix", "untouchedsvg")]
        listing.run(report, cases, execute, timeout=120)
    report.rule = (
        "(a) every codepoint sequence of length <=4 over a 13-value alphabet plus chains of length 5..14: glyph_name injective and legal, "
        "file-name round trip; (b) every pair (and triple) of a 20-sequence universe (prefixes, shared members, ZWJ/VS16, singleton inside "
        "sequences, >63-char name, the g-prefix pair) x formats x keep_glyph_names built through PIPE, shaped with O-SHAPE, artwork identified "
        "by colour and position; (c) full product aspect x width x metrics x 6 formats (vector, OT-SVG, cbdt and sbix from PNGs of that aspect) for the advance rule; distinct = outcome class"
    )
    report.assumptions += ["PIPE is bound to the real CLI by byte-identity on the conformance builds run at the start of this check"]
