"""Fork pool: run execute(case) for every case, merge results in case order."""
import multiprocessing as mp
import os
import random
import signal
import traceback

_FN = None
_TIMEOUT = 120


class CaseTimeout(Exception):
    pass


def _alarm(signum, frame):
    raise CaseTimeout()


def _call(item):
    idx, case = item
    signal.signal(signal.SIGALRM, _alarm)
    signal.alarm(_TIMEOUT)
    try:
        return idx, _FN(case)
    except CaseTimeout:
        return idx, [
            {"status": "harness-error", "clause": "harness.timeout", "detail": f"timeout {_TIMEOUT}s"}
        ]
    except Exception:
        return idx, [
            {
                "status": "harness-error",
                "clause": "harness.exception",
                "detail": traceback.format_exc()[-1500:],
            }
        ]
    finally:
        signal.alarm(0)


def nproc():
    return int(os.environ.get("VERIF_JOBS", "0")) or min(16, os.cpu_count() or 1)


def run_cases(fn, cases, timeout=120, jobs=None, chunksize=None, seed=0):
    """Returns list of verdict lists, in the order of `cases`.

    VERIF_SEED only permutes the visiting order; the result list is in canonical order.
    """
    global _FN, _TIMEOUT
    _FN, _TIMEOUT = fn, timeout
    cases = list(cases)
    order = list(range(len(cases)))
    if seed:
        random.Random(seed).shuffle(order)
    items = [(i, cases[i]) for i in order]
    jobs = jobs or nproc()
    out = [None] * len(cases)
    if jobs <= 1 or len(cases) <= 1:
        for it in items:
            i, r = _call(it)
            out[i] = r
        return out
    if chunksize is None:
        chunksize = max(1, min(16, len(cases) // (jobs * 8) or 1))
    ctx = mp.get_context("fork")
    with ctx.Pool(jobs) as pool:
        for i, r in pool.imap_unordered(_call, items, chunksize=chunksize):
            out[i] = r
    return out
