"""E1: deviation-bounded lattice search.

dims: dict name -> list of values (JSON-able); first value is the default.
A state is a dict of the non-default assignments ("deviations"); level = len(state).
States are visited level by level; transitions are "set one more dimension", so a state
at level L has L incoming edges.
"""
import itertools

from . import pool
from .report import canon, HarnessError


def states(dims, k, relevant=None):
    names = list(dims)
    skipped = 0
    out = []
    for level in range(k + 1):
        for ks in itertools.combinations(names, level):
            for vs in itertools.product(*[dims[n][1:] for n in ks]):
                dev = dict(zip(ks, vs))
                if relevant is not None and not relevant(dev):
                    skipped += 1
                    continue
                out.append(dev)
    return out, skipped


def full(dims, dev):
    a = {n: v[0] for n, v in dims.items()}
    a.update(dev)
    return a


def explore(report, dims, k, execute, relevant=None, timeout=120, extra_states=(), tag=None, deep_dims=None, deep_k=None):
    """Runs execute(dev) for every state up to level k; folds verdicts into report.

    Violations are attributed to minimal failing states: a failing state that has a failing
    proper subset (same clause) among the explored states is counted under that subset's
    signature. Signature = canonical JSON of the minimal deviation set.
    """
    devs, skipped = states(dims, k, relevant)
    if deep_dims and deep_k and deep_k > k:
        # levels k+1 .. deep_k over a sub-lattice only (the dimensions that meet in the code under test)
        sub = {n: dims[n] for n in dims if n in deep_dims}
        more, sk2 = states(sub, deep_k, relevant)
        devs += [d for d in more if len(d) > k]
        skipped += sk2
    devs += [d for d in extra_states if d not in devs]
    if tag is not None:
        cases = [dict(d, **{"_": tag}) for d in devs]
    else:
        cases = devs
    results = pool.run_cases(execute, cases, timeout=timeout, seed=report.seed)
    report.states += len(devs)
    report.transitions += sum(len(d) for d in devs)
    report.executions += len(devs)
    report.extra["skipped_vacuous_states"] = report.extra.get("skipped_vacuous_states", 0) + skipped
    lv = report.extra.setdefault("states_per_level", {})
    for d in devs:
        lv[str(len(d))] = lv.get(str(len(d)), 0) + 1
    failing = {}  # clause -> list of (frozenset(items), dev, verdict)
    for dev, case, verdicts in zip(devs, cases, results):
        report.evaluations += 1
        for v in verdicts:
            report.status[v["status"]] += 1
            if v.get("fp"):
                report.fps[v["fp"]] += 1
            if v["status"] == "harness-error":
                raise HarnessError(f"{canon(case)}: {v['detail']}")
            if v["status"] == "violation":
                key = frozenset((n, canon(x)) for n, x in dev.items())
                failing.setdefault(v["clause"], []).append((key, case, v))
    for clause, lst in failing.items():
        keys = [k_ for k_, _, _ in lst]
        minimal = [k_ for k_ in keys if not any(o < k_ for o in keys)]
        for key, case, v in lst:
            roots = [m for m in minimal if m <= key]
            root = min(roots, key=lambda m: (len(m), sorted(m)))
            sig = v.get("sig") or canon(sorted(root))
            if tag is not None and not v.get("sig"):
                sig = f"{tag}:{sig}"
            # replay file carries the minimal case
            if key == root:
                report.add_violation(clause, case, v.get("detail", ""), sig)
            else:
                report.violations.append(
                    {"clause": clause, "case": case, "detail": v.get("detail", ""), "signature": sig}
                )
    # put minimal cases first so that replay files carry the 1-minimal state
    report.violations.sort(key=lambda v: len(v["case"]) if isinstance(v["case"], dict) else 0)
    if devs:
        for i in (0, len(devs) // 2, len(devs) - 1):
            report.sample(cases[i])
    return devs, results
