"""Run report: collects coverage, violations, known findings; writes evidence and replays.

A *verdict* is a dict {"status": ..., "clause": ..., "detail": ..., "fp": ...}:
  status  ok | violation | rejected (declared error outcome predicted by the reference)
          | inconclusive | skipped
  clause  stable clause name, e.g. "C01.picture"
  fp      outcome fingerprint (counted for non-vacuity / distinct_nontrivial)
A *violation* additionally carries the case (JSON) and a signature.
"""
import hashlib
import json
import os
import subprocess
import sys
import time
from collections import Counter
from pathlib import Path

ROOT = Path(__file__).resolve().parents[2]
KNOWN = ROOT / "known_findings.json"
EVIDENCE_SCHEMA = "/root/.vp/EVIDENCE.schema.json"


def canon(obj):
    return json.dumps(obj, sort_keys=True, separators=(",", ":"), default=str)


def short_hash(obj):
    return hashlib.sha256(canon(obj).encode()).hexdigest()[:12]


class HarnessError(Exception):
    """The machinery itself is broken (exit 2): never reported as a violation."""


class Report:
    def __init__(self, prop_id, tier, seed, level):
        self.prop_id = prop_id
        self.tier = tier
        self.seed = seed
        self.level = level
        self.t0 = time.time()
        self.states = 0
        self.transitions = 0
        self.executions = 0  # executions on the real implementation
        self.evaluations = 0
        self.fps = Counter()
        self.status = Counter()
        self.samples = []
        self.violations = []  # dict(clause, case, signature, detail)
        self.extra = {}
        self.assumptions = []
        self.exhaustive = True
        self.rule = ""
        self.caps = []

    # -- collection -------------------------------------------------------
    def add_verdicts(self, case, verdicts):
        self.evaluations += 1
        for v in verdicts:
            self.status[v["status"]] += 1
            if v.get("fp"):
                self.fps[v["fp"]] += 1
            if v["status"] == "violation":
                self.add_violation(v["clause"], case, v.get("detail", ""), v.get("sig"))

    def add_violation(self, clause, case, detail, sig=None):
        self.violations.append(
            {"clause": clause, "case": case, "detail": detail, "signature": sig}
        )

    def sample(self, case):
        if len(self.samples) < 12:
            self.samples.append(case)

    def cap_hit(self, what):
        self.exhaustive = False
        self.caps.append(what)

    # -- finalisation -----------------------------------------------------
    def _known(self):
        if not KNOWN.exists():
            return []
        return [
            f
            for f in json.loads(KNOWN.read_text())["findings"]
            if f["property"] == self.prop_id and f.get("status", "open") == "open"
        ]

    def finalize(self):
        known = {(f["clause"], f["signature"]): f for f in self._known()}
        seen = {}
        for v in self.violations:
            sig = v["signature"] if v["signature"] is not None else canon(v["case"])
            key = (v["clause"], sig)
            seen.setdefault(key, []).append(v)
        unknown = []
        known_hit = []
        for key, vs in seen.items():
            if key in known:
                known_hit.append((known[key], len(vs)))
            else:
                unknown.append((key, vs))
        lines = []
        for f, n in known_hit:
            lines.append(
                f"KNOWN-FINDING: property={self.prop_id} {f['clause']} {f['what']} (cases={n})"
            )
        rdir = ROOT / "replays" / self.prop_id
        per_clause = Counter()
        for (clause, sig), vs in unknown:
            per_clause[clause] += 1
            if per_clause[clause] > 20:  # every signature is counted; only the first 20 per clause get a file
                continue
            rdir.mkdir(parents=True, exist_ok=True)
            v = vs[0]
            path = rdir / f"{clause.replace('.', '-')}-{short_hash([clause, sig])}.json"
            path.write_text(
                json.dumps(
                    {
                        "property": self.prop_id,
                        "clause": clause,
                        "signature": sig,
                        "case": v["case"],
                        "detail": v["detail"],
                        "cases_with_this_signature": len(vs),
                        "repo_commit": _repo_commit(),
                    },
                    indent=1,
                    default=str,
                )
            )
            lines.append(f"VIOLATION property={self.prop_id} replay={path}")
            lines.append(f"  clause={clause} signature={sig} detail={str(v['detail'])[:300]}")
        self.write_evidence(len(unknown), [f["signature"] for f, _ in known_hit])
        for l in lines:
            print(l)
        cov = (
            f"[{self.prop_id}/{self.tier}] states={self.states} transitions={self.transitions} "
            f"executions={self.executions} evaluations={self.evaluations} "
            f"distinct_outcomes={len(self.fps)} status={dict(self.status)} "
            f"violations={len(unknown)} known={len(known_hit)} exhaustive={self.exhaustive} "
            f"wall={time.time() - self.t0:.1f}s"
        )
        print(cov)
        sys.stdout.flush()
        return 1 if unknown else 0

    def write_evidence(self, n_viol, known_sigs):
        cov = {
            "states": max(self.states, 0),
            "transitions": max(self.transitions, 0),
            "traces_validated_against_impl": self.executions,
            "evaluations": self.evaluations,
            "distinct_nontrivial": len(self.fps),
            "rule": self.rule,
            "samples": self.samples[:12] or [{"note": "no case executed"}],
            "exhaustive": self.exhaustive,
            "status_counts": dict(self.status),
            "outcome_fingerprints": dict(self.fps.most_common(40)),
            "caps_hit": self.caps,
            "known_findings_hit": known_sigs,
        }
        cov.update(self.extra)
        cov["repo_under_test"] = _repo_state()
        ev = {
            "property_id": self.prop_id,
            "tier": self.tier,
            "seed": self.seed,
            "level": self.level,
            "coverage": cov,
            "assumptions": self.assumptions,
            "wall_s": round(time.time() - self.t0, 2),
            "violations": n_viol,
        }
        edir = ROOT / "evidence"
        edir.mkdir(exist_ok=True)
        path = edir / f"{self.prop_id}.json"
        path.write_text(json.dumps(ev, indent=1, default=str))
        _validate(path)


def _repo_state():
    """which tree the run was about: commit, and whether the working tree differed from it (a seeded change applied)"""
    src = os.environ.get("VERIF_REPO_SRC", "/repo/src")
    top = os.path.dirname(src.rstrip("/"))
    try:
        dirty = subprocess.run(["git", "-C", top, "status", "--porcelain", "--untracked-files=no"], capture_output=True, text=True).stdout.strip()
        head = subprocess.run(["git", "-C", top, "rev-parse", "HEAD"], capture_output=True, text=True).stdout.strip()
        return {"path": top, "commit": head, "working_tree_modified": sorted(l[3:] for l in dirty.splitlines())}
    except Exception as e:
        return {"path": top, "error": str(e)}


def _repo_commit():
    try:
        return subprocess.run(
            ["git", "-C", "/repo", "rev-parse", "HEAD"], capture_output=True, text=True
        ).stdout.strip()
    except Exception:
        return "?"


def _validate(path):
    if not os.path.exists(EVIDENCE_SCHEMA):
        return
    code = (
        "import json,sys,jsonschema;"
        "jsonschema.validate(json.load(open(sys.argv[1])),json.load(open(sys.argv[2])))"
    )
    r = subprocess.run(
        ["python3-vt", "-c", code, str(path), EVIDENCE_SCHEMA], capture_output=True, text=True
    )
    if r.returncode != 0:
        raise HarnessError("evidence does not validate: " + r.stderr[-800:])
