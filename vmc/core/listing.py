"""E2 / full products: run execute(case) on an explicit list of cases."""
from . import pool
from .report import canon, HarnessError


def run(report, cases, execute, timeout=120, transitions_per_case=1, jobs=None, chunksize=None):
    cases = list(cases)
    results = pool.run_cases(execute, cases, timeout=timeout, seed=report.seed, jobs=jobs, chunksize=chunksize)
    report.states += len(cases)
    report.transitions += transitions_per_case * len(cases)
    report.executions += len(cases)
    for case, verdicts in zip(cases, results):
        for v in verdicts:
            if v["status"] == "harness-error":
                raise HarnessError(f"{canon(case)}: {v['detail']}")
        report.add_verdicts(case, verdicts)
    if cases:
        for i in (0, len(cases) // 2, len(cases) - 1):
            report.sample(cases[i])
    return results


def ok(clause, fp=None):
    return {"status": "ok", "clause": clause, "fp": fp}


def bad(clause, detail, sig=None, fp=None):
    return {"status": "violation", "clause": clause, "detail": detail, "sig": sig, "fp": fp}


def run_shards(report, shards, fn, timeout=900, sample_key="samples"):
    """Exhaustive loops over big pure spaces: fn(shard) enumerates its sub-space and returns
    {"n": cases, "fps": {fingerprint: count}, "violations": [(clause, case, detail, sig)],
     "samples": [case, ...]}.  Every case counts as one state and one transition."""
    from collections import Counter

    def wrap(shard):
        r = fn(shard)
        return [{"status": "shard", "clause": "", "r": r}]

    results = pool.run_cases(wrap, shards, timeout=timeout, seed=report.seed, chunksize=1)
    for shard, res in zip(shards, results):
        v = res[0]
        if v["status"] == "harness-error":
            raise HarnessError(f"{canon(shard)}: {v['detail']}")
        r = v["r"]
        report.states += r["n"]
        report.transitions += r.get("transitions", r["n"])
        report.executions += r.get("executions", r["n"])
        report.evaluations += r["n"]
        report.status["ok"] += r["n"] - len(r["violations"])
        report.status["violation"] += len(r["violations"])
        for k, c in r.get("fps", {}).items():
            report.fps[k] += c
        for clause, case, detail, sig in r["violations"]:
            report.add_violation(clause, case, detail, sig)
        for s in r.get("samples", [])[:2]:
            report.sample(s)
    return results
