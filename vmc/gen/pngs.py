"""Generated PNG sources (Pillow): one marker pattern per source so images are distinguishable."""
import io

from PIL import Image

COLORS = [(255, 0, 0), (0, 160, 0), (0, 0, 255), (255, 160, 0), (160, 0, 255), (0, 200, 200)]


def png(w, h, i=0):
    im = Image.new("RGBA", (w, h), (0, 0, 0, 0))
    r, g, b = COLORS[i % len(COLORS)]
    px = im.load()
    for x in range(w):
        for y in range(h):
            if x in (0, w - 1) or y in (0, h - 1):
                px[x, y] = (0, 0, 0, 255)  # frame: the bitmap's own box is visible
            elif (x * 3 + y * 5 + i) % 7 < 4:
                px[x, y] = (r, g, b, 255)
    b = io.BytesIO()
    im.save(b, format="PNG")
    return b.getvalue()
