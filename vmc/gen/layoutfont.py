"""A 6-glyph font (+ .notdef) carrying one lookup of every GSUB/GPOS type and format and every
GDEF structure that is keyed by glyph: what feaLib can produce comes from the feature text,
the rest (Context / ChainContext formats 1 and 2, Context format 3, Extension wrappers,
MarkGlyphSetsDef, MarkAttachClassDef) is assembled from otTables objects by hand.
Coverages deliberately list glyphs whose relative order every transposition changes."""
import io

from fontTools.fontBuilder import FontBuilder
from fontTools.feaLib.builder import addOpenTypeFeaturesFromString
from fontTools.pens.ttGlyphPen import TTGlyphPen
from fontTools.ttLib import TTFont
from fontTools.ttLib.tables import otTables as ot

G = ["a", "b", "c", "d", "e", "f"]
FEA = """
languagesystem DFLT dflt;
@MARKS=[e f];
markClass e <anchor 10 20> @TOP;
markClass f <anchor 30 40> @TOP;

table GDEF {
  GlyphClassDef [a b], [c d], [e f], ;
  Attach a 1 2;
  Attach c 3;
  Attach f 2;
  LigatureCaretByPos d 100 200;
  LigatureCaretByPos c 50;
  LigatureCaretByPos b 70 80 90;
} GDEF;
feature kern {
  lookup sp1 { pos [a c d] -10; } sp1;
  lookup sp2 { pos a <1 2 3 4>; pos d <5 6 7 8>; pos b 9; } sp2;
  lookup pp1 { pos a b -11; pos a d -12; pos d a -13; pos c b -14; pos d c -15; pos d f -16;} pp1;
  lookup pp2 { pos [a d] [b c] -21; pos [b] [a d] -22; } pp2;
  lookup cur { pos cursive a <anchor 1 2> <anchor 3 4>; pos cursive d <anchor 5 6> <anchor NULL>; pos cursive b <anchor NULL> <anchor 7 8>;} cur;
  lookup mb { pos base a <anchor 100 200> mark @TOP; pos base d <anchor 101 201> mark @TOP; pos base c <anchor 102 202> mark @TOP;} mb;
  lookup ml { pos ligature d <anchor 1 2> mark @TOP ligComponent <anchor 3 4> mark @TOP; pos ligature c <anchor 5 6> mark @TOP;} ml;
  lookup mm { pos mark e <anchor 9 9> mark @TOP; pos mark f <anchor 8 8> mark @TOP;} mm;
  lookup ccp { pos [a d]' lookup sp1 [b c]' [e f]; pos c d' lookup sp2 a;} ccp;
  lookup ccp1 { pos a' lookup sp1 [d c b]' [f e]; } ccp1;
} kern;
feature liga {
  lookup ss { sub a by b; sub d by c; } ss;
  lookup ms { sub a by b c; sub d by e f; } ms;
  lookup alt { sub a from [b c d]; sub d from [a e]; } alt;
  lookup lig { sub a b by c; sub d a by e; sub d c b by f; sub a d by b;} lig;
  lookup ccs { sub [d a]' lookup ss [c b]'; sub e c' lookup ss d;} ccs;
  lookup rcs { rsub [a d] [d b]' [c e] by [c f]; } rcs;
  lookup ccs1 { sub a' lookup ss [d c b]' [f e]; } ccs1;
  lookup rcs1 { rsub a [d b]' [e c] by [c f]; } rcs1;
} liga;
"""
# (ccp1 / ccs1 / rcs1: in a list of coverages a single-glyph coverage comes *before* coverages with several glyphs)


# the same kinds of lookups, but in every coverage-parallel array two glyphs carry *equal* entries and a third a different one
# (an implementation that finds an entry's glyph by looking the entry up by value pairs it with the wrong glyph)
FEA_DUP = """
languagesystem DFLT dflt;
@MARKS=[b e f];
markClass e <anchor 10 20> @TOP;
markClass f <anchor 10 20> @TOP;
markClass b <anchor 30 40> @TOP;

table GDEF {
  GlyphClassDef [a], [c d], [b e f], ;
  Attach a 1 2;
  Attach c 1 2;
  Attach f 2;
  LigatureCaretByPos d 100 200;
  LigatureCaretByPos c 100 200;
  LigatureCaretByPos a 70;
} GDEF;
feature kern {
  lookup sp1 { pos [a c d] -10; } sp1;
  lookup sp2 { pos a <1 2 3 4>; pos c <1 2 3 4>; pos d <5 6 7 8>; } sp2;
  lookup pp1 { pos a b -11; pos a d -12; pos c b -11; pos c d -12; pos d a -13; } pp1;
  lookup cur { pos cursive a <anchor 1 2> <anchor 3 4>; pos cursive c <anchor 1 2> <anchor 3 4>; pos cursive d <anchor 5 6> <anchor NULL>;} cur;
  lookup mb { pos base a <anchor 100 200> mark @TOP; pos base c <anchor 100 200> mark @TOP; pos base d <anchor 101 201> mark @TOP;} mb;
  lookup ml { pos ligature a <anchor 5 6> mark @TOP; pos ligature c <anchor 5 6> mark @TOP; pos ligature d <anchor 1 2> mark @TOP ligComponent <anchor 3 4> mark @TOP;} ml;
  lookup mm { pos mark e <anchor 9 9> mark @TOP; pos mark f <anchor 9 9> mark @TOP; pos mark b <anchor 8 8> mark @TOP;} mm;
} kern;
feature liga {
  lookup ss { sub a by b; sub d by c; } ss;
  lookup ms { sub a by b c; sub c by b c; sub d by e f; } ms;
  lookup alt { sub a from [b d]; sub c from [b d]; sub d from [a e]; } alt;
  lookup rcs { rsub [a d] [d b a]' [c e] by [c f c]; } rcs;
} liga;
"""


def _cov(glyphs):
    c = ot.Coverage()
    c.glyphs = list(glyphs)
    return c


def _classdef(d):
    c = ot.ClassDef()
    c.classDefs = dict(d)
    return c


def _rec(cls, seq, lookup):
    r = cls()
    r.SequenceIndex = seq
    r.LookupListIndex = lookup
    return r


def _context(kind, fmt, lookup_index):
    """kind 'Subst' or 'Pos'; returns a Context<kind> sub-table of the given format"""
    Rec = ot.SubstLookupRecord if kind == "Subst" else ot.PosLookupRecord
    recs_attr = "SubstLookupRecord" if kind == "Subst" else "PosLookupRecord"
    cnt_attr = "SubstCount" if kind == "Subst" else "PosCount"
    st = getattr(ot, "Context" + kind)()
    st.Format = fmt
    prefix = "Sub" if kind == "Subst" else "Pos"
    if fmt == 1:
        st.Coverage = _cov(["a", "c", "d"])
        sets = []
        for first, rules in (("a", [["b"], ["d", "e"]]), ("c", [["f"]]), ("d", [["a"], ["c", "b"]])):
            rs = getattr(ot, prefix + "RuleSet")()
            lst = []
            for inp in rules:
                r = getattr(ot, prefix + "Rule")()
                r.GlyphCount = len(inp) + 1
                r.Input = list(inp)
                setattr(r, cnt_attr, 1)
                setattr(r, recs_attr, [_rec(Rec, 0, lookup_index)])
                lst.append(r)
            setattr(rs, prefix + "Rule", lst)
            sets.append(rs)
        setattr(st, prefix + "RuleSet", sets)
    elif fmt == 2:
        st.Coverage = _cov(["a", "b", "d"])
        st.ClassDef = _classdef({"a": 1, "d": 1, "b": 2, "e": 3})
        sets = [None]
        for cls_, rules in ((1, [[2], [3, 2]]), (2, [[1]]), (3, None)):
            if rules is None:
                sets.append(None)
                continue
            cs = getattr(ot, prefix + "ClassSet")()
            lst = []
            for inp in rules:
                r = getattr(ot, prefix + "ClassRule")()
                r.GlyphCount = len(inp) + 1
                r.Class = list(inp)
                setattr(r, cnt_attr, 1)
                setattr(r, recs_attr, [_rec(Rec, 0, lookup_index)])
                lst.append(r)
            setattr(cs, prefix + "ClassRule", lst)
            sets.append(cs)
        setattr(st, prefix + "ClassSet", sets)
    else:
        st.GlyphCount = 2
        st.Coverage = [_cov(["b", "c", "e"]), _cov(["a", "d", "f"])]
        setattr(st, cnt_attr, 1)
        setattr(st, recs_attr, [_rec(Rec, 1, lookup_index)])
    return st


def _chain(kind, fmt, lookup_index):
    Rec = ot.SubstLookupRecord if kind == "Subst" else ot.PosLookupRecord
    recs_attr = "SubstLookupRecord" if kind == "Subst" else "PosLookupRecord"
    cnt_attr = "SubstCount" if kind == "Subst" else "PosCount"
    st = getattr(ot, "ChainContext" + kind)()
    st.Format = fmt
    prefix = "ChainSub" if kind == "Subst" else "ChainPos"
    if fmt == 1:
        st.Coverage = _cov(["b", "d", "e"])
        sets = []
        for first, rules in (("b", [(["a"], ["c"], ["d"])]), ("d", [([], ["a"], ["f", "e"]), (["c", "b"], [], [])]), ("e", [(["f"], ["a"], [])])):
            rs = getattr(ot, prefix + "RuleSet")()
            lst = []
            for back, inp, ahead in rules:
                r = getattr(ot, prefix + "Rule")()
                r.BacktrackGlyphCount = len(back)
                r.Backtrack = list(back)
                r.InputGlyphCount = len(inp) + 1
                r.Input = list(inp)
                r.LookAheadGlyphCount = len(ahead)
                r.LookAhead = list(ahead)
                setattr(r, cnt_attr, 1)
                setattr(r, recs_attr, [_rec(Rec, 0, lookup_index)])
                lst.append(r)
            setattr(rs, prefix + "Rule", lst)
            sets.append(rs)
        setattr(st, prefix + "RuleSet", sets)
    else:
        st.Coverage = _cov(["a", "c", "f"])
        st.BacktrackClassDef = _classdef({"b": 1, "e": 2})
        st.InputClassDef = _classdef({"a": 1, "f": 1, "c": 2})
        st.LookAheadClassDef = _classdef({"d": 1, "a": 2})
        sets = [None]
        for cls_, rules in ((1, [([1], [2], [1])]), (2, [([2, 1], [], [2])])):
            cs = getattr(ot, prefix + "ClassSet")()
            lst = []
            for back, inp, ahead in rules:
                r = getattr(ot, prefix + "ClassRule")()
                r.BacktrackGlyphCount = len(back)
                r.Backtrack = list(back)
                r.InputGlyphCount = len(inp) + 1
                r.Input = list(inp)
                r.LookAheadGlyphCount = len(ahead)
                r.LookAhead = list(ahead)
                setattr(r, cnt_attr, 1)
                setattr(r, recs_attr, [_rec(Rec, 0, lookup_index)])
                lst.append(r)
            setattr(cs, prefix + "ClassRule", lst)
            sets.append(cs)
        setattr(st, prefix + "ClassSet", sets)
    return st


def _add_lookup(table, ltype, subtables, feature_index=0):
    lk = ot.Lookup()
    lk.LookupType = ltype
    lk.LookupFlag = 0
    lk.SubTable = subtables
    lk.SubTableCount = len(subtables)
    for st in subtables:
        st.LookupType = ltype
    table.LookupList.Lookup.append(lk)
    table.LookupList.LookupCount = len(table.LookupList.Lookup)
    idx = len(table.LookupList.Lookup) - 1
    table.FeatureList.FeatureRecord[feature_index].Feature.LookupListIndex.append(idx)
    table.FeatureList.FeatureRecord[feature_index].Feature.LookupCount = len(table.FeatureList.FeatureRecord[feature_index].Feature.LookupListIndex)
    return idx


def make(n_glyphs=6, dup=False):
    glyphs = G[:n_glyphs]
    fb = FontBuilder(1000, isTTF=True)
    order = [".notdef"] + G
    fb.setupGlyphOrder(order)
    fb.setupCharacterMap({0x61 + i: g for i, g in enumerate(G)})
    gl = {}
    for i, g in enumerate(order):
        pen = TTGlyphPen(None)
        pen.moveTo((0, 0))
        pen.lineTo((100 + 10 * i, 0))
        pen.lineTo((50, 100 + i))
        pen.closePath()
        gl[g] = pen.glyph()
    fb.setupGlyf(gl)
    fb.setupHorizontalMetrics({g: (500 + i, 0) for i, g in enumerate(order)})
    fb.setupHorizontalHeader(ascent=800, descent=-200)
    fb.setupNameTable({"familyName": "T", "styleName": "R"})
    fb.setupOS2()
    fb.setupPost()
    # a small COLRv1 + v0-style records keyed by glyph
    fb.setupCOLR({
        "a": (ot.PaintFormat.PaintColrLayers, [
            (ot.PaintFormat.PaintGlyph, (ot.PaintFormat.PaintSolid, 0), "b"),
            (ot.PaintFormat.PaintGlyph, (ot.PaintFormat.PaintSolid, 1, 0.5), "d")]),
        "e": (ot.PaintFormat.PaintGlyph, (ot.PaintFormat.PaintSolid, 1), "c"),
    }, clipBoxes={"a": (0, 0, 200, 200), "e": (0, 0, 100, 300)})
    fb.setupCPAL([[(1, 0, 0, 1), (0, 0, 1, 1)]])
    font = fb.font
    addOpenTypeFeaturesFromString(font, FEA_DUP if dup else FEA)
    if dup:
        b = io.BytesIO()
        font.save(b)
        return b.getvalue()
    gsub, gpos, gdef = font["GSUB"].table, font["GPOS"].table, font["GDEF"].table
    # index of the simple lookups the contextual ones call
    ss = 0  # first GSUB lookup is 'ss'
    sp1 = 0  # first GPOS lookup is 'sp1'
    for fmt in (1, 2, 3):
        _add_lookup(gsub, 5, [_context("Subst", fmt, ss)])
        _add_lookup(gpos, 7, [_context("Pos", fmt, sp1)])
    for fmt in (1, 2):
        _add_lookup(gsub, 6, [_chain("Subst", fmt, ss)])
        _add_lookup(gpos, 8, [_chain("Pos", fmt, sp1)])
    # Extension wrappers around a SinglePos format 2 and a ReverseChain-free SingleSubst
    sp = ot.SinglePos()
    sp.Format = 2
    sp.Coverage = _cov(["b", "c", "f"])
    sp.ValueFormat = 4
    vals = []
    for v in (11, 22, 33):
        vr = ot.ValueRecord()
        vr.XAdvance = v
        vals.append(vr)
    sp.Value = vals
    sp.ValueCount = 3
    ext = ot.ExtensionPos()
    ext.Format = 1
    ext.ExtensionLookupType = 1
    ext.ExtSubTable = sp
    sp.LookupType = 1
    _add_lookup(gpos, 9, [ext])
    # GDEF extras
    gdef.MarkAttachClassDef = _classdef({"e": 1, "f": 2})
    mgs = ot.MarkGlyphSetsDef()
    mgs.MarkSetTableFormat = 1
    mgs.Coverage = [_cov(["e"]), _cov(["e", "f"]), _cov(["a", "c", "f"])]
    mgs.MarkSetCount = 3
    gdef.MarkGlyphSetsDef = mgs
    gdef.Version = 0x00010002
    b = io.BytesIO()
    font.save(b)
    return b.getvalue()
