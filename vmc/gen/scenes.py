"""Scene grammar and the lattice dimensions shared by C01/C02/C03/C05/C06/C07.

A lattice state assigns one value to every dimension of DIMS (first value = default).
mk(a) turns a full assignment into scene-model glyphs and FontConfig overrides.
All dimension values are JSON-able so that a replay file is self-contained.
"""
import re

from vmc.oracles import aff
from vmc.oracles.scene import OUT, Glyph, Group, Linear, Radial, Shape, Solid, place

STOPS2 = [(0, "red", 1), (1, "blue", 1)]
STOPS_YG = [(0, "yellow", 1), (1, "green", 1)]

DIMS = {
    "vb_origin": [[0, 0], [10, -7], [-30, 20]],
    "vb_size": [100, 128, 24, 36, 1000],
    "vb_aspect": ["1:1", "2:1", "1:2", "4:1", "1:4"],
    "metrics": [[1024, 950, -250], [1000, 800, -200], [2048, 1900, -500], [100, 100, 0], [1000, 1000, 0], [16384, 15000, -1000]],
    "width": [1275, 0, 1000, 3000],
    "user": ["", "translate(0,-50)", "scale(0.9)", "scale(1.1,0.8)", "rotate(10)", "rotate(45)", "skewX(12)", "matrix(1 0 0 -1 0 700)", "scale(0)"],
    "tol": [0.1, -1, 0.5, 0.01, 1e-9],
    "clipq": [None, 1, 7, 64, 500],
    "keep": [False, True],
    "fmt": ["glyf_colr_1", "cff_colr_1", "cff2_colr_1"],
    "outline": ["ell", "tri", "blob", "quad", "oval", "ring"],
    "stack": ["base", "one", "three", "three_rev", "four", "twice"],
    "place": ["t", "id", "r90", "r180", "r30", "r45", "r1", "mx", "my", "md", "s2", "s05", "nu", "nu2", "nu_int", "x2", "rorigin", "sk", "out", "tiny", "tinycopy", "near", "off05", "far"],
    "donor_paint": ["red", "rgba", "rgba_op", "named", "omitted", "omitted_op", "opacity", "current", "current_op", "var", "var_op"],
    "copy_paint": ["blue", "same", "black", "alpha", "current", "var", "lin_bbox", "lin_user", "rad_bbox", "rad_focal_fr", "rad_user_gt"],
    "twin": ["none", "same_glyph", "cross_glyph"],
    "shared_grad": [False, True],
    "grad_twice": [False, True],
    "vb_b": ["same", "wide", "offset", "half"],
    "clone": ["none", "wide", "same"],
    "lin_vec": ["bbox_h", "diag", "vert", "pct", "short", "user"],
    "lin_gt": ["none", "rot", "nonuniform", "skew", "translate", "involutory", "rotscale"],
    "lin_spread": ["pad", "repeat", "reflect"],
    "lin_stops": ["two", "three", "stopop", "palvar", "pctoff", "shapeop", "dupoff", "unsorted", "zigzag", "fadein"],
    "rad_geom": ["c", "focal", "fr", "rpct", "user", "user_focal"],
    "rad_gt": ["none", "rot", "nonuniform", "skew", "translate", "rotscale"],
    "rad_spread": ["pad", "repeat", "reflect"],
    "rad_stops": ["two", "three", "stopop", "fadein"],
    "grp": ["g05", "none", "nested", "gradgrp", "reusedgrp", "twocopies", "samecopies", "sparse3", "siblings", "emptyglyph"],
    "seqlen": [1, 2, 3],
    "nglyphs": [2, 1, 3],
    "where": ["other", "same", "both"],
    # codepoints in the order of the sources, or the first source (the donor's glyph) carrying the highest one: by name and by
    # codepoint it then sorts after the glyphs that reuse its shapes
    "cp_order": ["asc", "desc"],
}

PL = {
    "t": aff.tr(30, 20),
    "id": aff.I,
    "r90": aff.mul(aff.tr(95, 10), aff.rot(90)),
    "r180": aff.mul(aff.tr(95, 85), aff.rot(180)),
    "r30": aff.mul(aff.tr(60, 10), aff.rot(30)),
    "r45": aff.mul(aff.tr(60, 0), aff.rot(45)),
    "r1": aff.mul(aff.tr(31, 19), aff.rot(1)),
    "mx": aff.mul(aff.tr(90, 20), aff.sc(-1, 1)),
    "my": aff.mul(aff.tr(30, 90), aff.sc(1, -1)),
    "md": aff.mul(aff.tr(25, 25), (0, 1, 1, 0, 0, 0)),
    "s2": aff.mul(aff.tr(-5, -10), aff.sc(1.6)),
    "s05": aff.mul(aff.tr(40, 40), aff.sc(0.5)),
    "nu": aff.mul(aff.tr(5, 30), aff.sc(1.5, 0.6)),
    "nu2": aff.mul(aff.tr(20, 95), aff.sc(1, -1.4)),
    # a non-uniform scale about a point whose font-space image is integral under the default metrics ((426, 590): 12 units per
    # design unit, 37.5 units of centring), so that the compiler can say "scale around a centre"
    "nu_int": aff.around(aff.sc(-1, 0.5), 32.375, 30),  # factors that keep the 3-decimal source coordinates exact (centre (426, 590))
    # exactly twice the size about a point with an integral font-space image: 2.0 is one step beyond what F2Dot14 holds
    "x2": aff.around(aff.sc(2), 32.375, 30),
    "sk": aff.mul(aff.tr(0, 20), aff.skew(20, 0)),
    "out": aff.tr(500, 0),
    "near": aff.tr(30, 20),
    "off05": aff.tr(30, 20),
    "far": aff.tr(30, 20),
}
POLYGONS = ("ell", "tri", "ring", "ell2")


def relevant(dev):
    """vacuous combinations (counted as skipped, not as covered)"""
    if dev.get("place") in ("near", "off05", "far") and dev.get("outline", "ell") not in POLYGONS:
        return False
    # lin_* sub-dimensions always matter (the blob carries a linear gradient) unless the
    # stack drops it; rad_* matter unless the group structure drops the oval
    if dev.get("stack") == "one" and any(k.startswith("lin_") for k in dev):
        return False
    if dev.get("nglyphs") == 1 and dev.get("where") != "same" and any(k in dev for k in ("place", "copy_paint")):
        return False
    if dev.get("nglyphs") == 1 and any(k in dev for k in ("grp", "seqlen", "twin")):
        return False
    if dev.get("nglyphs") == 1 and any(k.startswith("rad_") for k in dev):
        return False
    if dev.get("twin", "none") != "none" and any(k.startswith("rad_") for k in dev):
        return False  # the twin overrides the oval's gradient
    if dev.get("twin") == "cross_glyph" and any(k.startswith("lin_") for k in dev):
        return False  # ... and the blob's
    if dev.get("shared_grad") and (any(k.startswith("lin_") or k.startswith("rad_") for k in dev) or dev.get("twin", "none") != "none" or dev.get("nglyphs") == 1 or dev.get("stack") == "one"):
        return False
    if dev.get("vb_b", "same") != "same" and dev.get("nglyphs") == 1:
        return False
    if dev.get("grad_twice") and dev.get("stack") == "one" and dev.get("nglyphs") == 1:
        return False
    if dev.get("grp") == "emptyglyph" and dev.get("nglyphs") == 1:
        return False
    if dev.get("cp_order", "asc") != "asc" and dev.get("nglyphs") == 1:
        return False
    return True


def viewbox(a):
    size = a["vb_size"]
    w, h = {"1:1": (1, 1), "2:1": (2, 1), "1:2": (1, 2), "4:1": (4, 1), "1:4": (1, 4)}[a["vb_aspect"]]
    # the content design box is 100x100 scaled by k = min side / 100
    if w >= h:
        return (a["vb_origin"][0], a["vb_origin"][1], size * w / h, size)
    return (a["vb_origin"][0], a["vb_origin"][1], size, size * h / w)


def _gt(name, cx, cy, unit=1.0):
    return {
        "none": None,
        "rot": aff.around(aff.rot(25), cx, cy),
        "nonuniform": aff.around(aff.sc(1.2, 0.7), cx, cy),
        "skew": aff.around(aff.skew(15, 0), cx, cy),
        "translate": aff.tr(0.08 * unit, -0.05 * unit),
        "involutory": (-1, 0, 0, 1, 2 * cx, 0),
        "rotscale": aff.around(aff.mul(aff.rot(20), aff.sc(1.3, 0.7)), cx, cy),
    }[name]


def _lin_stops(name):
    return {
        "two": STOPS2,
        "three": [(0, "yellow", 1), (0.5, "red", 1), (1, "green", 1)],
        "stopop": [(0, "red", 0.4), (0.6, "yellow", 1), (1, "blue", 0.8)],
        "palvar": [(0, "var(--color3, red)", 1), (1, "blue", 1)],
        "pctoff": [("0%", "red", 1), ("40%", "yellow", 1), ("100%", "blue", 1)],
        "shapeop": [(0, "red", 0.5), (1, "blue", 1)],
        # a gradient that fades in from a fully transparent first stop: the shape paints, though its first colour is invisible
        "fadein": [(0, "red", 0), (1, "blue", 1)],
        # two stops at one offset (a hard edge), and offsets that decrease / leave [0,1] (SVG clamps each to [previous, 1])
        "dupoff": [(0, "red", 1), (0.5, "yellow", 1), (0.5, "blue", 1), (1, "green", 1)],
        "unsorted": [(0.2, "red", 1), (0.1, "yellow", 1), (0.7, "blue", 1), (1.3, "green", 1)],
        # offsets that go down and then part of the way back up: every one is clamped to the *running maximum*
        "zigzag": [(0, "red", 1), (0.7, "yellow", 1), (0.3, "blue", 1), (0.5, "green", 1), (1, "purple", 1)],
    }[name]


def mk(a):
    vb = viewbox(a)
    k = min(vb[2], vb[3]) / 100.0
    ox, oy = vb[0], vb[1]

    def frame(box):
        """design box -> a viewBox: (k, ox, oy, P: outline placer, U: design-box point in user space)"""
        k_ = min(box[2], box[3]) / 100.0
        ox_, oy_ = box[0], box[1]
        S_ = lambda m: aff.mul((1, 0, 0, 1, ox_, oy_), aff.mul(aff.sc(k_), m))
        return k_, ox_, oy_, (lambda d, m=aff.I, nd=3: place(d, S_(m), nd)), (lambda x, y: (x * k_ + ox_, y * k_ + oy_))

    _, _, _, P, U = frame(vb)
    # glyph B may live in another viewBox: wider with the same height, shifted, or half the size (its artwork is
    # scaled with it, so in font space it is as large as before and still congruent to glyph A's shapes)
    vbB = {"same": vb, "wide": (vb[0], vb[1], vb[2] * 1.5, vb[3]), "offset": (vb[0] - 0.13 * vb[2], vb[1] + 0.09 * vb[3], vb[2], vb[3]),
           "half": (vb[0], vb[1], vb[2] / 2, vb[3] / 2)}[a.get("vb_b", "same")]
    kB, oxB, oyB, PB, UB = frame(vbB)

    # --- linear gradient on the blob (glyph A, second shape) -------------------------
    lv = a["lin_vec"]
    if lv == "user":
        (x1, y1), (x2, y2) = U(45, 40), U(70, 60)
        units = "userSpaceOnUse"
        gt = _gt(a["lin_gt"], *U(55, 55), unit=100 * k)
    else:
        x1, y1, x2, y2 = {
            "bbox_h": (0, 0, 1, 0), "diag": (0.1, 0.2, 0.9, 0.7), "vert": (0, 0, 0, 1),
            "pct": ("10%", "0%", "80%", "50%"), "short": (0.4, 0.4, 0.6, 0.5),
        }[lv]
        units = "objectBoundingBox"
        gt = _gt(a["lin_gt"], 0.5, 0.5)
    lin = Linear("lg1", x1, y1, x2, y2, _lin_stops(a["lin_stops"]), units=units, gt=gt, spread=a["lin_spread"])
    lin_shape_op = 0.7 if a["lin_stops"] == "shapeop" else 1.0

    # --- radial gradient on the oval (glyph B) ------------------------------------------
    rstops = {"two": STOPS_YG, "three": [(0, "yellow", 1), (0.5, "red", 0.5), (1, "green", 1)],
              "stopop": [(0, "yellow", 0.3), (1, "green", 0.9)], "fadein": [(0, "yellow", 0), (1, "green", 1)]}[a["rad_stops"]]
    rg = a["rad_geom"]
    if rg in ("user", "user_focal"):
        cx, cy = UB(65, 65)
        fx, fy = UB(60, 60) if rg == "user_focal" else (None, None)
        rad = Radial("rg1", cx, cy, 22 * kB, rstops, fx=fx, fy=fy, units="userSpaceOnUse",
                     gt=_gt(a["rad_gt"], cx, cy, unit=100 * kB), spread=a["rad_spread"])
    else:
        kw = {"c": {}, "focal": dict(fx=0.3, fy=0.4), "fr": dict(fx=0.45, fy=0.5, fr=0.05), "rpct": {}}[rg]
        r = {"c": 0.5, "focal": 0.5, "fr": 0.3, "rpct": "40%"}[rg]
        rad = Radial("rg1", 0.5, 0.5, r, rstops, gt=_gt(a["rad_gt"], 0.5, 0.5), spread=a["rad_spread"], **kw)

    # --- donor / copy -----------------------------------------------------------------------
    od = OUT[a["outline"]]
    dp = a["donor_paint"]
    donor_paint = {
        "red": Solid("red"), "rgba": Solid("#FF000080"), "rgba_op": Solid("#FF000080"), "named": Solid("wheat"), "omitted": Solid("black"), "omitted_op": Solid("black"),
        "opacity": Solid("red"), "current": Solid("black", current=True), "current_op": Solid("black", current=True),
        "var": Solid("red", pal=1), "var_op": Solid("red", pal=1),
    }[dp]
    donor_op = 0.5 if dp in ("opacity", "current_op", "var_op", "rgba_op", "omitted_op") else 1.0
    cpn = a["copy_paint"]
    def copy_paint_in(U_):
        return {
            "blue": Solid("blue"), "same": donor_paint, "black": Solid("black"), "alpha": Solid("blue"), "current": Solid("black", current=True),
            "var": Solid("blue", pal=2),
            "lin_bbox": Linear("lg2", 0, 0, 1, 1, STOPS2),
            "lin_user": Linear("lg2", *U_(20, 10), *U_(80, 70), STOPS2, units="userSpaceOnUse"),
            "rad_bbox": Radial("rg2", 0.5, 0.5, 0.5, STOPS2),
            "rad_focal_fr": Radial("rg2", 0.5, 0.5, 0.5, STOPS2, fx=0.35, fy=0.4, fr=0.1),
            # user-space circles under a non-uniform gradientTransform (the compiler splits it into a uniform part on the circles and a
            # residual transform paint *with a translation*: a linear residual alone is invisible near the origin), centred in the far corner of the design box
            "rad_user_gt": Radial("rg2", *U_(92, 8), 150 * (U_(1, 0)[0] - U_(0, 0)[0]), STOPS2, units="userSpaceOnUse",
                                  gt=aff.mul(aff.tr(0, 45 * (U_(0, 1)[1] - U_(0, 0)[1])), aff.around(aff.sc(1, 0.5), *U_(0, 0)))),
        }[cpn]

    copy_paint, copy_paint_A = copy_paint_in(UB), copy_paint_in(U)
    tri_paint = Solid("green")
    if a.get("shared_grad"):
        # the very same (user-space) linear gradient on the blob of glyph A and on the triangle of glyph B
        lin = Linear("lg1", *U(30, 40), *U(80, 75), STOPS2, units="userSpaceOnUse")
        tri_paint = Linear("lg9", *UB(30, 40), *UB(80, 75), STOPS2, units="userSpaceOnUse")
        lin_shape_op = 1.0
        rad = Solid("orange")  # ... and no other gradient in glyph B (nothing else can take the gradient's id there)
    twin = a.get("twin", "none")
    if twin != "none":
        # twins: the same circles and stops under two different gradientTransforms. Both are non-uniform scales
        # about the user-space origin with the same largest factor, so after nanoemoji splits off the uniform part
        # the two gradients have *identical* geometry and differ in the residual transform only (a gradient-sharing
        # key that ignores the transform would merge them). Neither shape is a reused copy.
        twin_in = lambda k_, ox_, oy_: Radial("rg3", ox_ + 55 * k_, oy_ + 130 * k_, 40 * k_, STOPS_YG, units="userSpaceOnUse", gt=aff.around(aff.sc(0.5, 1), ox_, oy_))
        if twin == "same_glyph":
            tri_paint = twin_in(kB, oxB, oyB)  # next to the oval, in glyph B
        else:
            lin = twin_in(k, ox, oy)  # on the blob of glyph A: shares a document with the oval only when reuse links the glyphs
        rad = Radial("rg1", oxB + 55 * kB, oyB + 130 * kB, 40 * kB, STOPS_YG, units="userSpaceOnUse", gt=aff.around(aff.sc(1, 0.5), oxB, oyB))
    copy_op = 0.6 if cpn == "alpha" else (donor_op if cpn == "same" else 1.0)
    pl = a["place"]
    donor_d = P(od)
    if pl == "tiny":
        donor_d = P(od, aff.mul(aff.tr(2, 2), aff.sc(0.03)))
    elif pl == "tinycopy":
        donor_d = P(od, aff.mul(aff.tr(2, 2), aff.sc(1.8)))

    def copy_d_in(P, vb):
      if pl == "tiny":
        copy_d = P(od, aff.mul(aff.tr(20, 10), aff.sc(1.3)))
      elif pl == "tinycopy":
        # the reverse: a large donor and a copy 45 times smaller, close enough to the font-space origin for the compensating
        # translation to fit 16.16 but well above the baseline (a residual scale about the origin is invisible *at* the origin). With a
        # user-space gradient on the copy the compensating inverse scales the gradient's geometry past int16, so
        # nanoemoji has to carry it in a wrapping transform instead (the OverflowError route of write_font)
        copy_d = P(od, aff.mul(aff.tr(12, 30), aff.sc(0.04)), nd=5)
      elif pl == "rorigin":
        # a quarter turn about the point of this viewBox that lands on the *font-space origin* under the metrics in force: the placing
        # transform is then a pure rotation without any translation (exactly so where that point has a 3-decimal source coordinate,
        # e.g. metrics (1000, 800, -200) with the default width: (-13.75, 80)); the copy ends up below the descender
        from vmc.oracles import scene as sc_

        M_, _ = sc_.vb_to_font(vb, a["metrics"][1], a["metrics"][2], a["width"], aff.I)
        if abs(aff.det(M_)) < 1e-12:
            copy_d = P(od, PL["t"])
        else:
            qx, qy = aff.ap(aff.inv(M_), (0, 0))
            kk = min(vb[2], vb[3]) / 100.0
            copy_d = P(od, aff.around(aff.rot(90), (qx - vb[0]) / kk, (qy - vb[1]) / kk))
      else:
        copy_d = P(od, PL[pl])
        if pl in ("near", "off05", "far"):
            dv = {"near": 0.04, "off05": 0.5, "far": 3.0}[pl]
            s = (a["metrics"][1] - a["metrics"][2]) / vb[3]  # font units per viewBox unit
            m = re.match(r"M([-\d.e]+),([-\d.e]+) L([-\d.e]+),([-\d.e]+)(.*)$", copy_d)
            x = float(m.group(3)) + dv / s
            copy_d = f"M{m.group(1)},{m.group(2)} L{round(x, 3):g},{m.group(4)}{m.group(5)}"
      return copy_d

    copy_d, copy_d_A = copy_d_in(PB, vbB), copy_d_in(P, vb)

    donor = Shape(donor_d, donor_paint, opacity=donor_op, label="donor")
    blob = Shape(P(OUT["blob"], aff.tr(35, 30)), lin, opacity=lin_shape_op, label="blob-lin")
    st = a["stack"]
    if st == "base":
        a_nodes = [donor, blob]
    elif st == "one":
        a_nodes = [donor]
    elif st == "twice":  # the same translucent shape stacked twice at the same place: two layers, darker where they overlap
        x2 = [Shape(P(OUT["tri"], aff.tr(20, 15)), Solid("#0000FF80"), label=f"tri-twice-{i}") for i in (0, 1)]
        a_nodes = [donor, blob] + x2
    elif st in ("three", "three_rev"):
        extra = Shape(P(OUT["tri"], aff.tr(20, 15)), Solid("#00FF00"), opacity=0.5, label="tri-over")
        a_nodes = [donor, blob, extra] if st == "three" else [extra, blob, donor]
    else:
        a_nodes = [donor, Shape(P(OUT["tri"], aff.tr(20, 15)), Solid("yellow"), label="tri-y"), blob,
                   Shape(P(OUT["quad"], aff.tr(30, 5)), Solid("#0000FF80"), label="quad-b")]
    if a.get("grad_twice") and st != "one":
        # one gradient element referenced by two shapes of a glyph whose bounding boxes differ (objectBoundingBox
        # units resolve per referencing shape)
        a_nodes = a_nodes + [Shape(P(OUT["quad"], aff.tr(42, 58)), lin, opacity=lin_shape_op, label="quad-same-lin")]
    where = a.get("where", "other")
    if where in ("same", "both"):
        a_nodes = a_nodes + [Shape(copy_d_A, copy_paint_A, opacity=copy_op, label="copy-in-A")]
    A = Glyph((0xE000 if a.get("cp_order", "asc") == "asc" else 0xE010,), vb, a_nodes)

    tri = Shape(PB(OUT["tri"], aff.tr(40, 50)), tri_paint, label="tri")
    ov = Shape(PB(OUT["oval"], aff.tr(30, 40)), rad, label="oval-rad")
    copy = Shape(copy_d, copy_paint, opacity=copy_op, label="copy")
    if where == "same":  # glyph B keeps a shape in that slot, but not a copy of the donor
        copy = Shape(PB(OUT["quad"], aff.tr(40, 5)), Solid("blue"), label="not-a-copy")
    g = a["grp"]
    extra_glyphs = []
    if g == "none":
        b_nodes = [copy, tri, ov]
    elif g == "nested":
        b_nodes = [copy, Group(0.6, [tri, Group(0.5, [ov, Shape(PB(OUT["tri"], aff.tr(50, 20)), Solid("yellow"), label="tri2")])])]
    elif g == "gradgrp":
        b_nodes = [copy, Group(0.7, [ov, tri])]
    elif g == "reusedgrp":
        b_nodes = [Group(0.5, [copy, tri]), ov]
    elif g == "twocopies":  # a group whose members are both reused: a copy of the donor, then a copy of the triangle before the group
        tri_b = Shape(PB(OUT["tri"], aff.tr(12, 8)), Solid("orange"), label="tri-copy")
        b_nodes = [tri, Group(0.5, [copy, tri_b]), ov]
    elif g == "samecopies":  # a group that holds the same outline twice with the very same paint, at two places
        copy_b = Shape(place(copy_d, aff.tr(14 * kB, 22 * kB)), copy_paint, opacity=copy_op, label="copy-again")
        b_nodes = [tri, Group(0.5, [copy, copy_b]), ov]
    elif g == "sparse3":  # three members: z-order neighbours are disjoint, the first and the third overlap
        b_nodes = [copy, Group(0.5, [tri, Shape(PB(OUT["quad"], aff.tr(2, 2)), Solid("orange"), label="quad-far"),
                                     Shape(PB(OUT["tri"], aff.tr(52, 62)), Solid("blue"), label="tri-over-tri")])]
    elif g == "siblings":
        b_nodes = [Group(0.5, [copy, tri]), Group(0.8, [ov, Shape(PB(OUT["tri"], aff.tr(50, 20)), Solid("yellow"), label="tri2")])]
    else:
        b_nodes = [copy, Group(0.5, [tri, ov])]
        if g == "emptyglyph":
            extra_glyphs.append(Glyph((0xE005,), vb, []))
    if a.get("grad_twice"):
        b_nodes = b_nodes + [Shape(PB(OUT["tri"], aff.tr(2, 58)), rad, label="tri-same-rad")]
    seq = {1: (0xE001,), 2: (0xE001, 0xE002), 3: (0xE001, 0x200D, 0xE002)}[a["seqlen"]]
    B = Glyph(seq, vbB, b_nodes)
    n = a["nglyphs"]
    glyphs = [A] if n == 1 else [A, B]
    if n == 3:
        c2 = Shape(P(od, aff.mul(aff.tr(70, 70), aff.rot(200))), Solid("purple"), label="copy2")
        glyphs.append(Glyph((0xE003,), vb, [Shape(P(OUT["oval"], aff.tr(5, 5)), Solid("orange"), label="oval-o"), c2]))
    glyphs += extra_glyphs if n != 1 else []
    if a.get("clone", "none") == "wide":
        # one more glyph with glyph A's shapes *verbatim* (the same path strings, the same paints) in a viewBox twice as wide:
        # identical source geometry, another place in the em (anything keyed on the source text alone confuses the two)
        glyphs.append(Glyph((0xE004,), (vb[0], vb[1], vb[2] * 2, vb[3]), list(a_nodes)))
    elif a.get("clone") == "same":
        # ... or in the very same viewBox: glyphs A, B, A' where the first and the last have equal bounds and B differs
        glyphs.append(Glyph((0xE004,), vb, list(a_nodes)))
    upem, asc, desc = a["metrics"]
    over = {
        "upem": upem, "ascender": asc, "descender": desc, "width": a["width"], "reuse_tolerance": a["tol"],
        "clipbox_quantization": a.get("clipq"), "keep_glyph_names": a["keep"], "color_format": a["fmt"],
        "output_file": "x.otf" if a["fmt"].startswith("cff") else "x.ttf",
        "transform": a["user"],
    }
    return glyphs, over
