import argparse
import importlib
import json
import os
import sys
import traceback

from vmc.core.report import Report, HarnessError

LEVELS = {
    "C10": "exploration", "C15": "exploration", "C16": "exploration",
    "C17": "fault_enumeration",
}


def main(argv=None):
    ap = argparse.ArgumentParser()
    ap.add_argument("prop")
    ap.add_argument("--tier", default=os.environ.get("VERIF_TIER", "quick"), choices=["quick", "thorough"])
    ap.add_argument("--replay")
    ap.add_argument("--only", help="restrict to a named part of the check (debugging)")
    args = ap.parse_args(argv)
    seed = int(os.environ.get("VERIF_SEED", "0") or 0)
    pid = args.prop.upper() if args.prop[0] in "cC" and args.prop[1:].isdigit() else args.prop
    mod = importlib.import_module(f"vmc.props.{pid.lower()}")
    if args.replay:
        rec = json.load(open(args.replay))
        verdicts = getattr(mod, "replay", mod.execute)(rec["case"])
        failed = [v for v in verdicts if v["status"] == "violation"]
        for v in verdicts:
            print(v["status"], v.get("clause"), str(v.get("detail", ""))[:500])
        if failed:
            print(f"VIOLATION property={pid} replay={args.replay}")
            return 1
        return 0
    report = Report(pid, args.tier, seed, LEVELS.get(pid, "model_checking"))
    try:
        mod.run(report, args.tier, only=args.only)
        return report.finalize()
    except HarnessError as e:
        print(f"HARNESS-ERROR property={pid}: {e}", file=sys.stderr)
        return 2
    except Exception:
        traceback.print_exc()
        print(f"HARNESS-ERROR property={pid}: unexpected exception", file=sys.stderr)
        return 2


if __name__ == "__main__":
    sys.exit(main())
