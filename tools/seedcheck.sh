#!/bin/bash
# usage: tools/seedcheck.sh <seed-name> <worktree> <check-id>[,<check-id>...] [tier]
# 1. confirms the sub-agent's claims in its worktree  2. copies patch/demo/meta to /verif/seeded/<name>
# 3. applies the patch to /repo, runs the named checks, reverts.
name=$1; wt=$2; checks=$3; tier=${4:-quick}
dst=/verif/seeded/$name; mkdir -p $dst
cp $wt/seed/patch.diff $wt/seed/demo.py $wt/seed/meta.json $dst/ 2>/dev/null
cd $wt
echo "== tests with change"; PYTHONPATH=$wt/src /venv/bin/python -m pytest -q -p no:cacheprovider --timeout=900 -n 8 2>&1 | tail -1
echo "== demo with change";  (cd /var/tmp && PYTHONPATH=$wt/src /venv/bin/python $dst/demo.py >/var/tmp/demo.out 2>&1; echo "exit $?"; grep -v "^[IW][0-9]" /var/tmp/demo.out | tail -3)
git apply -R $dst/patch.diff
echo "== demo without change"; (cd /var/tmp && PYTHONPATH=$wt/src /venv/bin/python $dst/demo.py >/var/tmp/demo.out 2>&1; echo "exit $?")
git apply $dst/patch.diff
cd /verif
git -C /repo apply $dst/patch.diff || { echo "PATCH DOES NOT APPLY to /repo"; exit 3; }
# evidence files are rewritten by every run: keep the clean-tree ones
evbak=$(mktemp -d /var/tmp/evbak.XXXX); cp /verif/evidence/*.json $evbak/
for c in ${checks//,/ }; do
  echo "== check $c ($tier) with seed applied"
  ./check $c --tier $tier 2>&1 | grep -v "^KNOWN-FINDING" | cut -c1-330 | tail -4
done
cp $evbak/*.json /verif/evidence/; rm -rf $evbak
git -C /repo checkout -- . ; git -C /repo status --short | head -3
rm -rf /verif/replays
