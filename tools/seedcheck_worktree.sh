#!/bin/bash
# like /verif/tools/seedcheck.sh, but never touches /repo or /verif/evidence: checks run from a copy of /verif against the worktree
name=$1; wt=$2; checks=$3; tier=${4:-quick}
dst=/verif/seeded/$name; mkdir -p $dst
cp $wt/seed/patch.diff $wt/seed/demo.py $wt/seed/meta.json $dst/ 2>/dev/null
cd $wt
echo "== tests with change"; PYTHONPATH=$wt/src /venv/bin/python -m pytest -q -p no:cacheprovider --timeout=900 -n 8 2>&1 | tail -1
echo "== demo with change";  (cd /var/tmp && PYTHONPATH=$wt/src /venv/bin/python $dst/demo.py >/var/tmp/demo-$name.out 2>&1; echo "exit $?"; grep -v "^[IW][0-9]" /var/tmp/demo-$name.out | tail -3)
git apply -R $dst/patch.diff
echo "== demo without change"; (cd /var/tmp && PYTHONPATH=$wt/src /venv/bin/python $dst/demo.py >/var/tmp/demo-$name.out 2>&1; echo "exit $?")
git apply $dst/patch.diff
v=/var/tmp/verif-seed-$name; rsync -a --delete --exclude .git --exclude replays /verif/ $v/; cd $v
for c in ${checks//,/ }; do
  echo "== check $c ($tier) with seed applied"
  VP_RUN_REPO=$wt ./check $c --tier $tier 2>&1 | grep -v "^KNOWN-FINDING" | cut -c1-330 | tail -4
done
rm -rf $v
