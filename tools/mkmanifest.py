#!/venv/bin/python
"""Regenerates /verif/MANIFEST.json from the table below and validates it."""
import json, subprocess, sys
from pathlib import Path

ROOT = Path(__file__).resolve().parents[1]
GUARD = "GOOGLEFONTS_NANOEMOJI_VERIF"

# id -> (category, technique, text, note, design_ref)
CHECKS = {
 "C15": ("exploration",
         "exhaustive enumeration of all colour sets of size <=6 over a 28-colour universe against a reference model; all <=3-colour fills/stops through real COLRv0/v1 builds",
         "Every subset (size <=6) of 4 RGBA values x {no index, 0..5} is fed to the real uniq_sort_cpal_colors in two iteration orders and compared with an independent 15-line reference (O-PAL); font-level: every colour set of size <=3 is compiled and each paint's palette reference is resolved from the reloaded binary. The quantifier's own small-universe bound is covered completely (exhaustive:true).",
         "Trusts fontTools CPAL/COLR decompilation; colours outside the 4-value universe are assumed to behave alike (no branch on RGB values).",
         "DESIGN.md section 6, C15"),
}
CHECKS.update({
 "C01": ("model_checking",
         "deviation-bounded exhaustive lattice search (E1) over scene x configuration, every state compiled by the real code and judged by a point-wise COLRv1 reference semantics",
         "All states with <=2 (quick) / <=3 (thorough) simultaneous deviations from a base scene over 27 dimensions (~110 non-default values: viewBox, metrics, width, user transform, tolerance, clip quantisation, flavour, outline, z-order, 20 placements of a reused copy, paints, linear/radial gradient sub-dimensions, group structure, sequence length, glyph count) are built with _generate_color_font, saved, reloaded, shaped, and compared with the scene-model picture under the envelope rule; no sampling.",
         "Trusts fontTools decompilation, skia-pathops containment, and the independent COLR evaluator (bound to fontTools matrices, resvg and hand-computed cases by the self-test). Values between alphabet points and >3 simultaneous deviations are not covered.",
         "DESIGN.md section 6, C01"),
 "C02": ("model_checking",
         "deviation-bounded exhaustive lattice search (E1) x 4 OT-SVG formats, judged by a point-wise SVG reference semantics in OT-SVG coordinates",
         "Same lattice as C01 restricted to what reaches svg.py, x {picosvg, picosvgz, untouchedsvg, untouchedsvgz} x pretty_print; for every state the document covering the shaped glyph id must contain exactly one glyph<ID> element whose picture equals the scene model; untouched documents are also compared structurally with their source.",
         "Trusts fontTools SVG table decompilation, lxml, and the SVG evaluator (validated against resvg in the self-test).",
         "DESIGN.md section 6, C02"),
 "C06": ("model_checking",
         "deviation-bounded exhaustive lattice search (E1) in which every state is a pair of real builds (reuse on/off) compared leaf by leaf and point-wise",
         "Every state with <=2/<=3 deviations over outline x placement x where the copy lives x paints x group x tolerance x {glyf_colr_1, glyf_colr_0, picosvg}: both builds must succeed, leaf lists must agree in count, order, placed outline (Hausdorff within tolerance+quantisation) and colour at interior probes, and the two pictures must be equal; reports how often reuse actually fired.",
         "Differential oracle: needs no expected values; trusts the flatteners in vmc/oracles/flatten.py.",
         "DESIGN.md section 6, C06"),
})
CHECKS.update({
 "C03": ("model_checking",
         "deviation-bounded exhaustive lattice search (E1) x {glyf_colr_0, glyf, cff_colr_0, cff2_colr_0}; one-to-one outline matching + COLRv0 picture semantics",
         "Every state with <=2/<=3 deviations: placed outlines (COLRv0 layers, glyf components) are matched one-to-one with source shapes by Hausdorff distance, the glyph's own outline must cover nothing no source reaches, and for solid group-free sources layer order, palette colour+alpha, picture and base-glyph bounds are checked.",
         "Overlap fill of mirrored components in plain glyf is not claimed; semi-transparent currentColor is treated as inexpressible in COLRv0.",
         "DESIGN.md section 6, C03"),
 "C04": ("model_checking",
         "exhaustive word enumeration (E2) over a codepoint alphabet + all pairs/triples of a 20-sequence universe built through the conformance-bound in-process pipeline, judged by an independent mini shaper",
         "All sequences of length <=4 over 13 codepoints (+ chains to length 14): names injective/legal, file-name round trip; all pairs (x formats x keep_glyph_names) and triples of 20 sequences built through PIPE (byte-identical to the CLI on the conformance builds): O-SHAPE must reach exactly the glyph carrying that source's artwork; .notdef, space, sequence-only blanks; full product for the advance rule.",
         "PIPE is harness code bound to the CLI by byte-identity; O-SHAPE implements cmap + ligature substitution only (any other lookup type is reported).",
         "DESIGN.md section 6, C04"),
 "C05": ("model_checking",
         "deviation-bounded exhaustive lattice search (E1) over outline-moving dimensions x clipbox_quantization; clip box read from the binary against independently computed bounds",
         "Every state with <=2/<=3 deviations: ClipBox contains scene-model bounds of every source shape and transformed bounds of every compiled outline within the granted slack, lies on the quantisation grid, is absent for empty glyphs, and removes no painted probe.",
         "Bounds from dense outline samples (8 per segment).",
         "DESIGN.md section 6, C05"),
 "C07": ("model_checking",
         "deviation-bounded exhaustive lattice search (E1) over 13 formats x scene/config dimensions; own parsers of raw COLR/SVG/CBLC structures",
         "Every state with <=2 deviations x all 13 formats: the emitted bytes load non-lazily, decompile, re-save to a TTX-equal font (second re-save a fixed point) and satisfy the raw-table rules (sorted/in-range COLR records, sorted disjoint SVG ranges, unique ids, local hrefs, no cross-glyph references, consecutive CBLC runs, one bitmap per glyph, glyph-set agreement, post format).",
         "Own binary parsers written from the OpenType spec; fontTools for everything else.",
         "DESIGN.md section 6, C07"),
 "C14": ("model_checking",
         "deviation-bounded exhaustive lattice search (E1; thorough = full product) over bitmap height x aspect x width x metrics x format x glyph-order shape",
         "Quick: <=3 deviations; thorough: the full 21 600-state product. Image bytes, ppem, placement judged with the exact pixel size, pixel advance, consecutive runs; unrepresentable cases must raise.",
         "bitmap_resolution equals the PNG height, as resvg -h guarantees in the real pipeline; the CLI chain itself is exercised by C20/C09.",
         "DESIGN.md section 6, C14"),
 "C19": ("model_checking",
         "exhaustive full-product enumeration of isometric copies built with the real code",
         "Full product outline (7) x translation (5) x rotation (10) x mirror (3) x viewBox (4) x {same, other glyph} x tolerance (2) x 3 formats = 50 400 real builds (quick: a 3 024-build sub-product): donor and copy must resolve to one outline; with tolerance -1 they must be separate.",
         "Outlines are in generic position w.r.t. picosvg's snap grid (computed from the scene data); the boundary L-shape and the collinear-endpoint leaf are recorded known findings.",
         "DESIGN.md section 6, C19"),
})
PENDING = {}  # id -> reason it is not claimed (yet)

def main():
    props = [json.loads(l)["id"] for l in open(ROOT / "properties.jsonl")]
    checks = []
    for pid in props:
        if pid not in CHECKS:
            continue
        cat, tech, text, note, ref = CHECKS[pid]
        checks.append({
            "property_id": pid,
            "quick_cmd": f"./check {pid} --tier quick",
            "thorough_cmd": f"./check {pid} --tier thorough",
            "evidence_file": f"/verif/evidence/{pid}.json",
            "replay_cmd_template": f"./check {pid} --replay {{path}}",
            "engine": "vmc",
            "level_claimed": {"category": cat, "text": text, "design_ref": ref},
            "level_note": note,
            "technique": tech,
        })
    na = [{"property_id": p, "reason": PENDING.get(p, "check not built yet in this session (see DESIGN.md section 10 for the build order); no claim is made")}
          for p in props if p not in CHECKS]
    hooks = json.loads((ROOT / "tools" / "hooks.json").read_text()) if (ROOT / "tools" / "hooks.json").exists() else {"source_commits": []}
    m = {
        "version": 1,
        "setup_cmd": "true",
        "hooks": {
            "guard": GUARD,
            "enable": f"export {GUARD}=1 (set by ./check); nanoemoji is installed editable in /venv so the working tree of /repo is what runs",
            "baseline_off_cmd": "cd /repo && env -u " + GUARD + " /venv/bin/python -m pytest -ra -q -p no:cacheprovider --timeout=900 --continue-on-collection-errors",
            "source_commits": hooks["source_commits"],
            "add_only": True,
        },
        "engines": [{
            "name": "vmc", "path": "/verif/vmc",
            "serves_properties": [c["property_id"] for c in checks],
            "kind_free_text": "hand-written explicit-state / bounded-exhaustive explorers (deviation-bounded lattice, word enumeration, BFS over build-directory snapshots, ninja schedule enumeration, Cayley-graph BFS) executing the real nanoemoji code against independent reference models",
        }],
        "checks": checks,
        "not_applicable": na,
        "notes": "See DESIGN.md. known_findings.json lists recorded genuine defects; seeded/ holds property-breaking changes used to test detection.",
    }
    out = ROOT / "MANIFEST.json"
    out.write_text(json.dumps(m, indent=1) + "\n")
    code = "import json,sys,jsonschema;jsonschema.validate(json.load(open(sys.argv[1])),json.load(open('/root/.vp/MANIFEST.schema.json')))"
    r = subprocess.run(["python3-vt", "-c", code, str(out)], capture_output=True, text=True)
    if r.returncode:
        print(r.stderr[-2000:]); sys.exit(1)
    print("MANIFEST ok:", len(checks), "checks,", len(na), "not claimed")

main()
