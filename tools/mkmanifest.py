#!/venv/bin/python
"""Regenerates /verif/MANIFEST.json from the table below and validates it."""
import json, subprocess, sys
from pathlib import Path

ROOT = Path(__file__).resolve().parents[1]
GUARD = "GOOGLEFONTS_NANOEMOJI_VERIF"

# id -> (category, technique, text, note, design_ref)
CHECKS = {
 "C15": ("exploration",
         "exhaustive enumeration of all colour sets of size <=6 over a 28-colour universe against a reference model; all <=3-colour fills/stops through real COLRv0/v1 builds",
         "Every subset (size <=6) of 4 RGBA values x {no index, 0..5} is fed to the real uniq_sort_cpal_colors in two iteration orders and compared with an independent 15-line reference (O-PAL); font-level: every colour set of size <=3 is compiled and each paint's palette reference is resolved from the reloaded binary. The quantifier's own small-universe bound is covered completely (exhaustive:true).",
         "Trusts fontTools CPAL/COLR decompilation; colours outside the 4-value universe are assumed to behave alike (no branch on RGB values).",
         "DESIGN.md section 6, C15"),
}
CHECKS.update({
 "C01": ("model_checking",
         "deviation-bounded exhaustive lattice search (E1) over scene x configuration, every state compiled by the real code and judged by a point-wise COLRv1 reference semantics",
         "All states with <=2 (quick) / <=3 (thorough) simultaneous deviations from a base scene over 27 dimensions (~110 non-default values: viewBox, metrics, width, user transform, tolerance, clip quantisation, flavour, outline, z-order, 20 placements of a reused copy, paints, linear/radial gradient sub-dimensions, group structure, sequence length, glyph count) are built with _generate_color_font, saved, reloaded, shaped, and compared with the scene-model picture under the envelope rule; no sampling.",
         "Trusts fontTools decompilation, skia-pathops containment, and the independent COLR evaluator (bound to fontTools matrices, resvg and hand-computed cases by the self-test). Values between alphabet points and >3 simultaneous deviations are not covered.",
         "DESIGN.md section 6, C01"),
 "C02": ("model_checking",
         "deviation-bounded exhaustive lattice search (E1) x 4 OT-SVG formats, judged by a point-wise SVG reference semantics in OT-SVG coordinates",
         "Same lattice as C01 restricted to what reaches svg.py, x {picosvg, picosvgz, untouchedsvg, untouchedsvgz} x pretty_print; for every state the document covering the shaped glyph id must contain exactly one glyph<ID> element whose picture equals the scene model; untouched documents are also compared structurally with their source.",
         "Trusts fontTools SVG table decompilation, lxml, and the SVG evaluator (validated against resvg in the self-test).",
         "DESIGN.md section 6, C02"),
 "C06": ("model_checking",
         "deviation-bounded exhaustive lattice search (E1) in which every state is a pair of real builds (reuse on/off) compared leaf by leaf and point-wise",
         "Every state with <=2/<=3 deviations over outline x placement x where the copy lives x paints x group x tolerance x {glyf_colr_1, glyf_colr_0, picosvg}: both builds must succeed, leaf lists must agree in count, order, placed outline (Hausdorff within tolerance+quantisation) and colour at interior probes, and the two pictures must be equal; reports how often reuse actually fired.",
         "Differential oracle: needs no expected values; trusts the flatteners in vmc/oracles/flatten.py.",
         "DESIGN.md section 6, C06"),
})
CHECKS.update({
 "C03": ("model_checking",
         "deviation-bounded exhaustive lattice search (E1) x {glyf_colr_0, glyf, cff_colr_0, cff2_colr_0}; one-to-one outline matching + COLRv0 picture semantics",
         "Every state with <=2/<=3 deviations: placed outlines (COLRv0 layers, glyf components) are matched one-to-one with source shapes by Hausdorff distance, the glyph's own outline must cover nothing no source reaches, and for solid group-free sources layer order, palette colour+alpha, picture and base-glyph bounds are checked.",
         "Overlap fill of mirrored components in plain glyf is not claimed; semi-transparent currentColor is treated as inexpressible in COLRv0.",
         "DESIGN.md section 6, C03"),
 "C04": ("model_checking",
         "exhaustive word enumeration (E2) over a codepoint alphabet + all pairs/triples of a 20-sequence universe built through the conformance-bound in-process pipeline, judged by an independent mini shaper",
         "All sequences of length <=4 over 13 codepoints (+ chains to length 14): names injective/legal, file-name round trip; all pairs (x formats x keep_glyph_names) and triples of 20 sequences built through PIPE (byte-identical to the CLI on the conformance builds): O-SHAPE must reach exactly the glyph carrying that source's artwork; .notdef, space, sequence-only blanks; full product for the advance rule.",
         "PIPE is harness code bound to the CLI by byte-identity; O-SHAPE implements cmap + ligature substitution only (any other lookup type is reported).",
         "DESIGN.md section 6, C04"),
 "C05": ("model_checking",
         "deviation-bounded exhaustive lattice search (E1) over outline-moving dimensions x clipbox_quantization; clip box read from the binary against independently computed bounds",
         "Every state with <=2/<=3 deviations: ClipBox contains scene-model bounds of every source shape and transformed bounds of every compiled outline within the granted slack, lies on the quantisation grid, is absent for empty glyphs, and removes no painted probe.",
         "Bounds from dense outline samples (8 per segment).",
         "DESIGN.md section 6, C05"),
 "C07": ("model_checking",
         "deviation-bounded exhaustive lattice search (E1) over 13 formats x scene/config dimensions; own parsers of raw COLR/SVG/CBLC structures",
         "Every state with <=2 deviations x all 13 formats: the emitted bytes load non-lazily, decompile, re-save to a TTX-equal font (second re-save a fixed point) and satisfy the raw-table rules (sorted/in-range COLR records, sorted disjoint SVG ranges, unique ids, local hrefs, no cross-glyph references, consecutive CBLC runs, one bitmap per glyph, glyph-set agreement, post format).",
         "Own binary parsers written from the OpenType spec; fontTools for everything else.",
         "DESIGN.md section 6, C07"),
 "C14": ("model_checking",
         "deviation-bounded exhaustive lattice search (E1; thorough = full product) over bitmap height x aspect x width x metrics x format x glyph-order shape",
         "Quick: <=3 deviations; thorough: <=6 deviations over 10 dimensions. Image bytes, ppem, placement judged with the exact pixel size, pixel advance, consecutive runs; unrepresentable cases must raise. Plus 8 real command-line builds ({cbdt, sbix} x pngquant on/off x zopflipng on/off): stored bytes == the PNG of the last stage switched on.",
         "In the lattice the PNGs are generated (Pillow) and fed to _generate_color_font; incremental behaviour of the CLI chain is C09's, option routing C20's.",
         "DESIGN.md section 6, C14"),
 "C19": ("model_checking",
         "exhaustive full-product enumeration of isometric copies built with the real code",
         "Full product outline (7) x translation (5) x rotation (10) x mirror (3) x viewBox (4) x {same, other glyph} x tolerance (2) x 3 formats = 50 400 real builds (quick: a 3 024-build sub-product): donor and copy must resolve to one outline; with tolerance -1 they must be separate.",
         "Outlines are in generic position w.r.t. picosvg's snap grid (computed from the scene data); the boundary L-shape and the collinear-endpoint leaf are recorded known findings.",
         "DESIGN.md section 6, C19"),
})
CHECKS.update({
 "C08": ("model_checking",
         "exhaustive schedule enumeration (every linear extension of the ninja graph driven one edge at a time, with strace footprints and sleep-set reduction) + deviation-bounded lattice over argument order, set iteration orders (hash seeds searched until every order is realised), -jN, build/working/source directories",
         "Real `nanoemoji` command with SOURCE_DATE_EPOCH fixed: all permutations of the arguments, one hash seed per iteration order of the path / glyph-name sets (all n! orders realised and reported), ninja -j1/-j2/-j16, three build-dir and cwd placements, moved source dir, relative arguments, TOML glob, for a vector, an OT-SVG and a bitmap format; both orders of two configuration files; a two-axis variable font under 4 (thorough 8) hash seeds; every linear extension of the 2-source (quick) / 3-source (thorough) graph executed through `ninja -j1 <target>` (the harness checks that exactly one edge runs per call); one sha256 per format.",
         "Only str/Path-keyed sets depend on PYTHONHASHSEED (Color/int/tuple hashes do not). Sources from several directories in different relative order are outside the statement.",
         "DESIGN.md section 6, C08"),
 "C09": ("model_checking",
         "explicit-state BFS over histories on materialised build-directory snapshots, with fault injection at every node class of the ninja graph",
         "From a clean build, every history of <=2 (quick) / <=3 (thorough) events over {add, remove, modify, touch, rename, 8 option changes}, each followed by a real invocation on a copy of the snapshot; at depth 1 (2) every node class x {exit before writing, truncated output + SIGKILL of the step, + SIGKILL of ninja and driver} and two driver crash points; invariants in every state: a failed step fails the invocation, and one further fault-free invocation yields the bytes of a clean build of the final inputs.",
         "States are not merged, so no abstraction argument is needed. Faults through PYTHONPATH sitecustomize / a PATH shim for resvg (no source hooks).",
         "DESIGN.md section 6, C09"),
 "C10": ("exploration",
         "exhaustive products / word enumeration over pure hand-off functions against their inverse (round trips), with the ninja-quoting reference bound to one real ninja run",
         "Every FontConfig with <=2 non-default fields through config.write/load (meta-check: every field has a dimension); {absent, v1, v2, explicit default} in file x as flag for every flag-backed field; every string of length <=3 over 10 characters as directory or stem x column mode x codepoints x glyph name through csv_line/load_from and through response-file quoting; all sequences <=4 over 13 codepoints for names/file names; parts JSON on every level-<=1 scene. exhaustive:true.",
         "Pure functions only; what the CLI does with them is C20/C04.",
         "DESIGN.md section 6, C10"),
 "C11": ("model_checking",
         "BFS over the Cayley graph of glyph orders (chained adjacent transpositions) plus every one-shot permutation from two base states, name-keyed facts + raw coverage probe as invariants",
         "All 720 orders of 6 movable glyphs of a font with one lookup of every GSUB/GPOS type+format and every glyph-keyed GDEF structure (3 600 chained transposition transitions + 1 438 one-shot permutations), the same on a real nanoemoji COLRv1 font with GSUB; in every state the name-keyed reading of every table must equal the initial one and every coverage in the binary must be sorted and every PairSet ordered by second glyph id.",
         "O-FACTS' table of coverage/parallel-array pairs is written from the spec, independently of nanoemoji's rule table.",
         "DESIGN.md section 6, C11"),
 "C12": ("model_checking",
         "deviation-bounded exhaustive lattice search (E1) on the real maximum_color command",
         "Input kind (4 nanoemoji formats, third-party COLRv1/v0) x --bitmaps x --colr_version x --keep_glyph_names x space glyph x kerning/mark lookups x palettes x glyph names x zero-width colour glyph x hhea metrics differing from typo metrics x line gap x seven colour glyphs, <=1 (quick) / <=2 (thorough) deviations: name-keyed facts unchanged, tables added, pictures of all colour tables equal for every reachable colour glyph, O-STRUCT, stripped-names output equal except post.",
         "CBDT pictures are compared loosely (pngquant, antialiasing); foreground colour is black in bitmaps.",
         "DESIGN.md section 6, C12"),
 "C13": ("model_checking",
         "exhaustive word enumeration (E2) over transform-paint wrappers x fills x graph structures, two independent evaluators meeting through the converter",
         "All words of length <=1 (+ all length-2 nestings for two fills; thorough: <=2) of the 10 static transform paints around the glyph and around the fill x 9 fills x structure variants, COLRv0, unsupported formats; SVG picture must equal COLR picture through the inverse placement; currentColor / var(--colorN) clauses; unsupported formats must raise or warn.",
         "Test fonts are built with fontTools; one fixed parameter set per transform paint.",
         "DESIGN.md section 6, C13"),
 "C16": ("exploration",
         "exhaustive full products of boundary alphabets through paint.transformed / apply_transform with a compile-decompile round trip",
         "(i) b=c=0: 40 scale x 40 scale x 30 x 30 translation values (quick: <=3 entries off identity, 161k; thorough: all 1.44M); (ii) 8^6 general matrices; (iii) 8 gradient geometries x ~390 affines: emitted chain denotes the input; compiled and decompiled it raises or equals the input within fixed-point precision; gradient colours at corresponding points; uniform x residual = original; (iv) font-level sub-lattice of real builds; (v) every transform-paint class (incl. rotate, skew) x small field alphabets: gettransform() against the spec formula and read back through the binary. exhaustive:true.",
         "fontTools raises on out-of-range fixed-point fields (measured).",
         "DESIGN.md section 6, C16"),
 "C17": ("fault_enumeration",
         "exhaustive enumeration of defect class x position x format on the real command line",
         "12 single-config defect classes x position of the defective source among 0-2 valid ones x applicable colour-format families on the real CLI in a fresh directory (must exit non-zero, no Font.ttf), 2 multi-master defect classes x master order, 6 classes in-process x all applicable formats of the 13.",
         "Palette conflicts demanded only of COLR builds; content defects not demanded of untouchedsvg/bitmap builds.",
         "DESIGN.md section 6, C17"),
 "C18": ("model_checking",
         "deviation-bounded exhaustive lattice search (E1) on the real CLI with multi-master TOML; instance = fontTools instancer + the oracle's own evaluation of the variable COLR table",
         "Master derivation x master layout x axis range x metrics x width x scene, <=1/<=2 deviations: at every master location advance, layer list, outline positions and picture equal a static build of that master; default location; clip box contains interpolated outlines at t = 1/4, 1/2, 3/4.",
         "The installed fontTools instancer does not instantiate COLR, so COLR variation is evaluated by vmc/oracles/colrvar.py (written from the spec).",
         "DESIGN.md section 6, C18"),
 "C20": ("model_checking",
         "exhaustive enumeration field x {flag, file, both, omitted, flag added on a second invocation} and of configuration pairs built in one invocation, on the real CLI",
         "Every FontConfig field that has an observable (meta-check) x 5 ways of giving it (the fifth: TOML alone, then the same directory and TOML plus the flag), observable read from the emitted font/build dir; pairs of 11 configurations sharing sources in one invocation (quick: 36 pairs, thorough: all 110 ordered pairs), each font byte-compared with the font its configuration produces alone; PIPE<->CLI conformance builds.",
         "fea_file and ignore_reuse_error have no observable in the statement.",
         "DESIGN.md section 6, C20"),
})
PENDING = {}  # id -> reason it is not claimed (yet)

def main():
    props = [json.loads(l)["id"] for l in open(ROOT / "properties.jsonl")]
    checks = []
    for pid in props:
        if pid not in CHECKS:
            continue
        cat, tech, text, note, ref = CHECKS[pid]
        checks.append({
            "property_id": pid,
            "quick_cmd": f"./check {pid} --tier quick",
            "thorough_cmd": f"./check {pid} --tier thorough",
            "evidence_file": f"/verif/evidence/{pid}.json",
            "replay_cmd_template": f"./check {pid} --replay {{path}}",
            "engine": "vmc",
            "level_claimed": {"category": cat, "text": text, "design_ref": ref},
            "level_note": note,
            "technique": tech,
        })
    na = [{"property_id": p, "reason": PENDING.get(p, "check not built yet in this session (see DESIGN.md section 10 for the build order); no claim is made")}
          for p in props if p not in CHECKS]
    hooks = json.loads((ROOT / "tools" / "hooks.json").read_text()) if (ROOT / "tools" / "hooks.json").exists() else {"source_commits": []}
    m = {
        "version": 1,
        "setup_cmd": "true",
        "hooks": {
            "guard": GUARD,
            "enable": f"export {GUARD}=1 (set by ./check); nanoemoji is installed editable in /venv so the working tree of /repo is what runs",
            "baseline_off_cmd": "cd /repo && env -u " + GUARD + " /venv/bin/python -m pytest -ra -q -p no:cacheprovider --timeout=900 --continue-on-collection-errors",
            "source_commits": hooks["source_commits"],
            "add_only": True,
        },
        "engines": [{
            "name": "vmc", "path": "/verif/vmc",
            "serves_properties": [c["property_id"] for c in checks],
            "kind_free_text": "hand-written explicit-state / bounded-exhaustive explorers (deviation-bounded lattice, word enumeration, BFS over build-directory snapshots, ninja schedule enumeration, Cayley-graph BFS) executing the real nanoemoji code against independent reference models",
        }],
        "checks": checks,
        "not_applicable": na,
        "notes": "See DESIGN.md. known_findings.json lists recorded genuine defects; seeded/ holds property-breaking changes used to test detection.",
    }
    out = ROOT / "MANIFEST.json"
    out.write_text(json.dumps(m, indent=1) + "\n")
    code = "import json,sys,jsonschema;jsonschema.validate(json.load(open(sys.argv[1])),json.load(open('/root/.vp/MANIFEST.schema.json')))"
    r = subprocess.run(["python3-vt", "-c", code, str(out)], capture_output=True, text=True)
    if r.returncode:
        print(r.stderr[-2000:]); sys.exit(1)
    print("MANIFEST ok:", len(checks), "checks,", len(na), "not claimed")

main()
