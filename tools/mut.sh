#!/bin/bash
# usage: tools/mut.sh <file-in-repo> <old> <new> -- <command...>
# applies an exact single-occurrence replacement in /repo, runs the command, reverts.
file=$1; old=$2; new=$3; shift 4
cd /repo
/venv/bin/python - "$file" "$old" "$new" <<'PY' || exit 9
import sys
f,old,new=sys.argv[1:4]
s=open(f).read()
assert s.count(old)==1, (s.count(old), old)
open(f,"w").write(s.replace(old,new))
PY
(cd /verif && "$@")
rc=$?
git -C /repo checkout -q -- "$file"
exit $rc
