#!/venv/bin/python
"""Regenerates Appendix C of DESIGN.md (and seeded/INDEX.md) from seeded/results.json."""
import json
from pathlib import Path

ROOT = Path(__file__).resolve().parents[1]
d = json.loads((ROOT / "seeded" / "results.json").read_text())
lines = ["## Appendix C. Seeded property-breaking changes and which checks catch them", "",
         "Each change was written by a fresh sub-agent that was given only the text of one property and a scratch worktree of /repo (nothing from /verif).",
         "Kept only after confirming, in that worktree: the 235 baseline tests still pass with the change, the agent's `demo.py` exits 1 with it and 0",
         "without it. Then the patch was applied to /repo, the named checks were run (quick tier) and the patch was reverted. A change counts as caught",
         "when the check reports violations beyond what it reports on the unchanged tree. Files: `/verif/seeded/<name>/{patch.diff, demo.py, meta.json}`.", "",
         "| seed | property | change | needs, to manifest | caught by (quick) | remark |", "|---|---|---|---|---|---|"]
for name in sorted(d):
    r = d[name]
    lines.append(f"| {name} | {r['property']} | {r['change']} | {r['needs']} | {', '.join(r['caught_by'])} | {r['note']} |")
missed = [n for n, r in d.items() if "MISSED" in r["note"]]
lines += ["", f"{len(d)} seeded changes; {len(missed)} were missed by the owning check as first built ({', '.join(sorted(missed))}); each miss led to a stronger",
          "alphabet or explorer (recorded in the remark column and in the *As built* notes of section 6), after which all are caught on every run.", ""]
text = "\n".join(lines)
p = ROOT / "DESIGN.md"
s = p.read_text()
if "## Appendix C." in s:
    s = s[: s.index("## Appendix C.")]
s = s.rstrip("\n") + "\n\n" + text
p.write_text(s)
(ROOT / "seeded" / "INDEX.md").write_text(text.replace("## Appendix C. ", "# "))
print(len(d), "seeds;", len(missed), "initially missed")
