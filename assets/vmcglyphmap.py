"""A custom glyphmap_generator used by C20: same CSV format as nanoemoji.write_glyphmap but
glyph names get the prefix 'custom_'. Invoked as `python -m vmcglyphmap -v N --output_file F @F.rsp`."""
import shlex
import sys
from pathlib import Path


def main(argv):
    out = "-"
    files = []
    i = 1
    while i < len(argv):
        a = argv[i]
        if a == "--output_file":
            out = argv[i + 1]
            i += 2
        elif a.startswith("--output_file="):
            out = a.split("=", 1)[1]
            i += 1
        elif a == "-v":
            i += 2
        elif a.startswith("@"):
            files += shlex.split(Path(a[1:]).read_text())
            i += 1
        else:
            files.append(a)
            i += 1
    import re

    lines = []
    for f in files:
        stem = Path(f).stem
        cps = [int(x, 16) for x in re.findall(r"[0-9a-fA-F]+", stem.replace("emoji_u", ""))]
        if len(cps) == 1:
            name = "custom_%x" % cps[0]
        else:
            # the generated feature file refers to sequence glyphs by their standard name
            from nanoemoji.glyph import glyph_name

            name = glyph_name(cps)
        svg = f if f.endswith(".svg") else ""
        png = f if f.endswith(".png") else ""
        lines.append(",".join([svg, png, name] + ["%04x" % c for c in cps]))
    text = "\n".join(lines) + "\n"
    if out == "-":
        sys.stdout.write(text)
    else:
        Path(out).write_text(text)


if __name__ == "__main__":
    main(sys.argv)
